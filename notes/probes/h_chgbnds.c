#include <stdlib.h>
#include <string.h>
#include <stdbool.h>
#include "qs_config.h"
#include "eg_lpnum.h"
#include "lpdata_mpq.h"
#include "lpdefs_mpq.h"
#include "lib_mpq.h"
#define MAXN 60000
void QSlog(const char *format, ...) { }
void ILL_report(const char*msg,const char*fct,const char*file,unsigned int line,int w) { }
int g_edits;  /* ghost: number of successful single edits */
int contract_chgbnd(mpq_lpinfo *lp, int indx, int lu, const mpq_t bnd)
__CPROVER_requires(lp != NULL)
__CPROVER_assigns(g_edits)
__CPROVER_ensures((indx < 0) ==> __CPROVER_return_value != 0)
__CPROVER_ensures(__CPROVER_return_value == 0 ==> g_edits == __CPROVER_old(g_edits) + 1)
__CPROVER_ensures(__CPROVER_return_value != 0 ==> g_edits == __CPROVER_old(g_edits))
;
int contract_chgbnds(mpq_lpinfo *lp, int cnt, int *indx, char *lu, const mpq_t *bnd)
__CPROVER_requires(lp != NULL && cnt >= 0 && cnt <= MAXN && g_edits == 0)
__CPROVER_requires(__CPROVER_is_fresh(indx, sizeof(int)*cnt) && __CPROVER_is_fresh(lu, cnt) && __CPROVER_is_fresh(bnd, sizeof(mpq_t)*cnt))
__CPROVER_assigns(g_edits)
__CPROVER_ensures(__CPROVER_return_value == 0 ==> g_edits == cnt)
;
void harness(void)
{
  mpq_lpinfo *lp; int cnt; int *indx; char *lu; mpq_t *bnd;
  mpq_ILLlib_chgbnds(lp, cnt, indx, lu, bnd);
}
