#include <stdlib.h>
#include <string.h>
#include <stdbool.h>
#include "qs_config.h"
#include "eg_lpnum.h"
#include "lpdata_mpq.h"
#include "lpdefs_mpq.h"
#include "lib_mpq.h"
#ifdef __CPROVER__XX
#endif
#define CAP 30000
int nondet_int(void); 
void __gmpq_set(mpq_ptr a, mpq_srcptr b) { *a = *b; }
void QSlog(const char *format, ...) { }
void ILL_report(const char*msg,const char*fct,const char*file,unsigned int line,int w) { }
/* ghost snapshot for frame re-check in native mode omitted in probe */
int contract_chgbnd(mpq_lpinfo *lp, int indx, int lu, const mpq_t bnd)
__CPROVER_requires(lp != NULL && lp->O != NULL && lp->O->sinfo == NULL)
__CPROVER_requires(0 <= lp->O->nstruct && lp->O->nstruct <= lp->O->structsize)
__CPROVER_requires((0 <= indx && indx < lp->O->nstruct) ==> (0 <= lp->O->structmap[indx] && lp->O->structmap[indx] < lp->O->ncols))
__CPROVER_assigns((0 <= indx && indx < lp->O->nstruct): lp->O->lower[lp->O->structmap[indx]], lp->O->upper[lp->O->structmap[indx]])
__CPROVER_ensures((indx < 0 || indx >= lp->O->nstruct) ==> __CPROVER_return_value != 0)
__CPROVER_ensures((lu != 'L' && lu != 'U' && lu != 'B') ==> __CPROVER_return_value != 0)
;
void harness(void)
{
  mpq_lpinfo *lp = malloc(sizeof *lp); mpq_ILLlpdata *O = malloc(sizeof *O);
  __CPROVER_assume(lp && O);
  lp->O = O; O->sinfo = NULL;
  int nstruct = nondet_int(), structsize = nondet_int(), ncols = nondet_int(), colsize = nondet_int();
  __CPROVER_assume(0 <= nstruct && nstruct <= structsize && structsize <= CAP);
  __CPROVER_assume(nstruct <= ncols && ncols <= colsize && colsize <= 2*CAP);
  O->nstruct = nstruct; O->structsize = structsize; O->ncols = ncols; O->colsize = colsize;
  O->structmap = malloc(sizeof(int) * structsize);
  O->lower = malloc(sizeof(mpq_t) * colsize);
  O->upper = malloc(sizeof(mpq_t) * colsize);
  __CPROVER_assume(O->structmap && O->lower && O->upper);
  int indx = nondet_int(), lu = nondet_int(); mpq_t bnd;
  mpq_ILLlib_chgbnd(lp, indx, lu, bnd);
  __CPROVER_assert(0, "reach_end");
}
