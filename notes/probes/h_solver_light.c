#include <stdlib.h>
#include <string.h>
#include <stdbool.h>
#include "qs_config.h"
#include "QSopt_ex.h"
int nondet_int(void); _Bool nondet_bool(void); double nondet_double(void);
/* ---------- ghost state ---------- */
int g_opt_cert, g_inf_cert;      /* last exact test that returned 1 */
void *g_cert_x, *g_cert_y, *g_out_x_from, *g_out_y_from;

/* ---------- GMP model (opaque) ---------- */
void __gmpq_init(mpq_ptr a){ a->_mp_num._mp_size = 0; a->_mp_den._mp_size = 1; }
void __gmpq_clear(mpq_ptr a){ }
void __gmpq_set(mpq_ptr a, mpq_srcptr b){ *a = *b; }
void __gmpq_set_f(mpq_ptr a, mpf_srcptr b){ a->_mp_num._mp_size = nondet_int(); a->_mp_den._mp_size = 1; }
void __gmpf_init(mpf_ptr a){ a->_mp_size = 0; }
void __gmpf_clear(mpf_ptr a){ }
int  __gmpf_cmp(mpf_srcptr a, mpf_srcptr b){ return nondet_int(); }
void mpq_EGlpNumSet(mpq_t v, const double d){ v->_mp_num._mp_size = nondet_int(); v->_mp_den._mp_size = 1; }
void QSlog(const char *format, ...) { }

/* ---------- other-TU callees: nondeterministic stubs ---------- */
#define NS 0
static dbl_QSdata *mk_dbl(void){ dbl_QSdata *p = malloc(sizeof *p); __CPROVER_assume(p); p->qslp = malloc(sizeof *p->qslp); p->lp = malloc(sizeof *p->lp); __CPROVER_assume(p->qslp && p->lp); p->qslp->ncols = NS; p->qslp->nrows = NS; p->lp->final_phase = nondet_int(); p->simplex_display = 0; return p; }
static mpf_QSdata *mk_mpf(void){ mpf_QSdata *p = malloc(sizeof *p); __CPROVER_assume(p); p->qslp = malloc(sizeof *p->qslp); p->lp = malloc(sizeof *p->lp); __CPROVER_assume(p->qslp && p->lp); p->qslp->ncols = NS; p->qslp->nrows = NS; p->lp->final_phase = nondet_int(); p->basis = 0; p->simplex_display = 0; return p; }
static QSbasis *mk_basis(void){ QSbasis *b = malloc(sizeof *b); __CPROVER_assume(b); b->nstruct = NS; b->nrows = NS; b->cstat = malloc(NS); b->rstat = malloc(NS); return b; }
int dbl_QSload_basis(dbl_QSdata*p, QSbasis*B){ return nondet_int(); }
int dbl_ILLeditor_solve(dbl_QSdata*p, int a){ return nondet_int(); }
int dbl_QSget_status(dbl_QSdata*p, int*s){ *s = nondet_int(); return nondet_int(); }
int dbl_QSopt_primal(dbl_QSdata*p, int*s){ *s = nondet_int(); return nondet_int(); }
int dbl_QSget_itcnt(dbl_QSdata*p,int*a,int*b,int*c,int*d,int*e){ if(e) *e = nondet_int(); return nondet_int(); }
int dbl_QSget_x_array(dbl_QSdata*p,double*x){ return nondet_int(); }
int dbl_QSget_pi_array(dbl_QSdata*p,double*x){ return nondet_int(); }
int dbl_QSget_infeas_array(dbl_QSdata*p,double*x){ return nondet_int(); }
QSbasis *dbl_QSget_basis(dbl_QSdata*p){ return nondet_bool()? mk_basis() : 0; }
void dbl_QSfree_prob(dbl_QSdata*p){ if(p){ free(p->qslp); free(p->lp); free(p);} }
int mpf_QSload_basis(mpf_QSdata*p, QSbasis*B){ return nondet_int(); }
int mpf_ILLeditor_solve(mpf_QSdata*p, int a){ return nondet_int(); }
int mpf_QSget_status(mpf_QSdata*p, int*s){ *s = nondet_int(); return nondet_int(); }
int mpf_QSopt_primal(mpf_QSdata*p, int*s){ *s = nondet_int(); return nondet_int(); }
int mpf_QSget_itcnt(mpf_QSdata*p,int*a,int*b,int*c,int*d,int*e){ if(e) *e = nondet_int(); return nondet_int(); }
int mpf_QSget_x_array(mpf_QSdata*p,mpf_t*x){ return nondet_int(); }
int mpf_QSget_pi_array(mpf_QSdata*p,mpf_t*x){ return nondet_int(); }
int mpf_QSget_infeas_array(mpf_QSdata*p,mpf_t*x){ return nondet_int(); }
QSbasis *mpf_QSget_basis(mpf_QSdata*p){ return nondet_bool()? mk_basis() : 0; }
void mpf_QSfree_prob(mpf_QSdata*p){ if(p){ free(p->qslp); free(p->lp); free(p);} }
void mpf_QSfree_basis(QSbasis*b){ if(b){ free(b->cstat); free(b->rstat); free(b);} }
void mpq_QSfree_basis(QSbasis*b){ if(b){ free(b->cstat); free(b->rstat); free(b);} }
void mpf_ILLlp_basis_free(mpf_ILLlp_basis*B){ }
int mpq_QSget_x_array(mpq_QSdata*p,mpq_t*x){ return nondet_int(); }
int mpq_QSget_pi_array(mpq_QSdata*p,mpq_t*x){ return nondet_int(); }
int mpq_QSget_infeas_array(mpq_QSdata*p,mpq_t*x){ return nondet_int(); }
int mpq_QSwrite_prob(mpq_QSdata*p,const char*a,const char*b){ return nondet_int(); }
int mpf_QSwrite_prob(mpf_QSdata*p,const char*a,const char*b){ return nondet_int(); }


/* same-TU public callees replaced by stub bodies (their real bodies are removed with goto-instrument --remove-function-body) */
int QSexact_optimal_test(mpq_QSdata *p, mpq_t *p_sol, mpq_t *d_sol, QSbasis *basis){ int r = nondet_bool(); g_opt_cert = r; if(r){ g_cert_x = p_sol; g_cert_y = d_sol; } return r; }
int QSexact_infeasible_test(mpq_QSdata *p, mpq_t *d_sol){ int r = nondet_bool(); g_inf_cert = r; if(r){ g_cert_y = d_sol; } return r; }
void mpf_QSset_precision(const unsigned prec){ }
/* callees of the real QSexact_basis_status */
int mpq_QSload_basis(mpq_QSdata*p, QSbasis*B){ g_opt_cert = 0; g_inf_cert = 0; return nondet_int(); }
void mpq_ILLlp_cache_free(mpq_ILLlp_cache*C){ }
void mpq_ILLlp_sinfo_free(mpq_ILLlp_sinfo*s){ }
void mpq_ILLlp_rows_clear(mpq_ILLlp_rows*r){ }
void mpq_free_internal_lpinfo(mpq_lpinfo*lp){ }
void mpq_init_internal_lpinfo(mpq_lpinfo*lp){ }
int mpq_build_internal_lpinfo(mpq_lpinfo*lp){ return nondet_int(); }
void mpq_ILLfct_set_variable_type(mpq_lpinfo*lp){ }
int mpq_ILLbasis_load(mpq_lpinfo*lp, mpq_ILLlp_basis*B){ return nondet_int(); }
int mpq_ILLbasis_factor(mpq_lpinfo*lp, int*s){ *s = nondet_int(); return nondet_int(); }
void mpq_ILLfct_compute_piz(mpq_lpinfo*lp){ }
void mpq_ILLfct_compute_dz(mpq_lpinfo*lp){ }
void mpq_ILLfct_compute_xbz(mpq_lpinfo*lp){ }
void mpq_ILLfct_compute_phaseI_piz(mpq_lpinfo*lp){ }
void mpq_ILLfct_check_pfeasible(mpq_lpinfo*lp, mpq_feas_info*fi, const mpq_t t){ fi->pstatus = nondet_int(); }
void mpq_ILLfct_check_dfeasible(mpq_lpinfo*lp, mpq_feas_info*fi, const mpq_t t){ fi->dstatus = nondet_int(); }
void mpq_ILLfct_set_status_values(mpq_lpinfo*lp,int a,int b,int c,int d){ lp->basisstat.optimal = nondet_bool(); lp->basisstat.primal_infeasible = nondet_bool(); lp->basisstat.dual_unbounded = nondet_bool(); lp->basisstat.primal_unbounded = nondet_bool(); lp->basisstat.primal_feasible = nondet_bool(); lp->basisstat.dual_feasible = nondet_bool(); lp->basisstat.dual_infeasible = nondet_bool(); }
int mpq_QSgrab_cache(mpq_QSdata*p,int st){ return nondet_int(); }
double __gmpq_get_d(mpq_srcptr a){ return nondet_double(); }
const mpq_t __zeroLpNum_mpq__;
void harness(void){
  mpq_QSdata *p = malloc(sizeof *p); __CPROVER_assume(p); p->qslp = malloc(sizeof *p->qslp); p->lp = malloc(sizeof *p->lp); __CPROVER_assume(p->qslp && p->lp);
  p->qslp->nrows = NS; p->qslp->sinfo = 0; p->qslp->rA = 0; p->lp->nrows = NS; p->lp->pIpiz = 0; p->cache = 0; p->basis = 0; p->simplex_display = 0; p->name = 0;
  int algo = nondet_int(); int status;
  g_opt_cert = 0; g_inf_cert = 0;
  int rv = QSexact_solver(p, 0, 0, 0, algo, &status);
  __CPROVER_assert(!(rv == 0 && status == QS_LP_OPTIMAL) || g_opt_cert == 1, "C01 gating: OPTIMAL only after exact optimal test");
  __CPROVER_assert(!(rv == 0 && status == QS_LP_INFEASIBLE) || g_inf_cert == 1, "C02 gating: INFEASIBLE only after exact infeasible test");
}
dbl_QSdata *QScopy_prob_mpq_dbl(mpq_QSdata *p, const char *n){ return mk_dbl(); }
mpf_QSdata *QScopy_prob_mpq_mpf(mpq_QSdata *p, const char *n){ return mk_mpf(); }
