from vlib.pipeline import Group
MODEL = ["@model/gmp_model.c", "@model/io_model.c", "@model/globals_mpq.c"]
CAP = "position->column map (nbaz/baz) capped at 64 entries (universal in-range fact needs a constant-range quantifier); the loop is closed by an inductive invariant, no unwinding"
ASM = "fct: GMP model variant SIGNS (sums/differences are arbitrary values obeying the sign laws of an ordered field)"
GROUPS = [
    Group("fct/check_dfeasible", "fct_feas.c", tus=["fct_mpq.c"], model=MODEL, defines=["FN_dfeas", "QSV_GMP_SIGNS"],
          enforce=["mpq_ILLfct_check_dfeasible/contract_ILLfct_check_dfeasible"], loops="fct.json", expect_loops=1,
          must_fail=["reach_end", "reach_feasible", "reach_infeasible"], kind="bounded", bound=CAP, props=["C12", "C17"], assumed=[ASM]),
    Group("fct/check_pfeasible", "fct_feas.c", tus=["fct_mpq.c"], model=MODEL, defines=["FN_pfeas", "QSV_GMP_SIGNS"],
          enforce=["mpq_ILLfct_check_pfeasible/contract_ILLfct_check_pfeasible"], loops="fct.json", expect_loops=1,
          must_fail=["reach_end", "reach_feasible", "reach_infeasible"], kind="bounded", bound=CAP, props=["C12", "C17"], assumed=[ASM]),
]
GROUPS += [
    Group("basis/load", "basis_load.c", tus=["basis_mpq.c", "allocrus.c"], model=MODEL, dfcc=False, unwind=6, kind="bounded", flags=["--no-malloc-may-fail"],
          bound="nstruct, nrows in 1..2 (loops completely unwound), arbitrary column bijection, arbitrary status codes and row senses; allocation failure not explored",
          must_fail=["reach_end", "reach_loaded"], functions=["ILLbasis_load", "ILLbasis_build_basisinfo"], props=["C12", "C17"]),
]

EXACT = ["QSV_GMP_EXACT", "QSV_NARROW", "QSV_INF=1024"]
GROUPS += [
    Group("fct/compute_" + fn, "fct_compute.c", tus=["fct_mpq.c"], model=MODEL, defines=["FN_" + fn] + EXACT, dfcc=False, unwind=8, kind="bounded", timeout=1200,
          bound="2 rows, 2 non-basic positions, 4 columns of at most 2 entries each, arbitrary basis header / column types / statuses, integer data of magnitude <= 3; exact pair arithmetic (GMP model EXACT+NARROW); loops completely unwound",
          must_fail=["reach_end", cov], functions=["ILLfct_compute_" + fn], props=props + ["C17"])
    for fn, cov, props in [("dz", "reach_fixed_column_nonzero_dz", ["C12"]), ("pobj", "reach_nonzero_value", ["C01", "C05"]), ("dobj", "reach_nonzero_value", ["C01", "C05"])]
]
