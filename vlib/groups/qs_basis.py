from vlib.pipeline import Group
QS = ["qsopt_mpq.c", "lpdata_mpq.c", "allocrus.c"]
MODEL = ["@model/gmp_model.c", "@model/io_model.c", "@model/globals_mpq.c"]
BB = "nstruct, nrows in 1..3 (all loops completely unwound); arbitrary status bytes and row senses; allocation failure not explored (--no-malloc-may-fail): the property is about invalid arguments"

GROUPS = [
    Group("qsb/QSwrite_basis", "qs_basis.c", tus=QS, model=MODEL, defines=["FN_QSwrite_basis"],
          enforce=["mpq_QSwrite_basis/contract_QSwrite_basis"], loops="qsopt.json", expect_loops=4, preinline=["qsbasis_to_illbasis", "mpq_ILLlp_basis_free"],
          props=["C14", "C07", "C17", "C18"],
          assumed=["qsb/QSwrite_basis: ILLlib_writebasis (the text writer, C14 round-trip half) is a nondeterministic stub that records the basis it is given"]),
    Group("qsb/QSload_basis", "qs_basis.c", tus=QS, model=MODEL, defines=["FN_QSload_basis"], dfcc=False, unwind=5, kind="bounded", bound=BB, flags=["--no-malloc-may-fail"],
          must_fail=["reach_end", "reach_accepted", "reach_malformed"], functions=["QSload_basis", "qsbasis_to_illbasis"], props=["C07", "C12", "C17"]),
    Group("qsb/QSload_basis_array", "qs_basis.c", tus=QS, model=MODEL, defines=["FN_QSload_basis_array"], dfcc=False, unwind=5, kind="bounded", bound=BB, flags=["--no-malloc-may-fail"],
          must_fail=["reach_end", "reach_accepted", "reach_malformed"], functions=["QSload_basis_array"], props=["C07", "C12", "C17"]),
]
