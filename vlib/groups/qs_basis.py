from vlib.pipeline import Group
QS = ["qsopt_mpq.c", "lpdata_mpq.c", "allocrus.c"]
MODEL = ["@model/gmp_model.c", "@model/io_model.c", "@model/globals_mpq.c"]

GROUPS = [
    Group("qsb/QSwrite_basis", "qs_basis.c", tus=QS, model=MODEL, defines=["FN_QSwrite_basis"],
          enforce=["mpq_QSwrite_basis/contract_QSwrite_basis"], loops="qsopt.json", expect_loops=4, preinline=["qsbasis_to_illbasis", "mpq_ILLlp_basis_free"],
          props=["C14", "C07", "C17", "C18"], 
          assumed=["qsb/QSwrite_basis: ILLlib_writebasis (the text writer, C14 round-trip half) is a nondeterministic stub that records the basis it is given"]),
]
