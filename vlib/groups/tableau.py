from vlib.pipeline import Group
MODEL = ["@model/gmp_model.c", "@model/io_model.c", "@model/globals_mpq.c"]
BB = "fixed dimension 2 structural x 2 rows (loops completely unwound), arbitrary bijection of external onto internal columns; allocation failure not explored"
ASM = "tab/*: ILLbasis_tableau_row (B^-1 row via the LU factorization, and its products with the columns) is a stub writing position-coded values: the LU arithmetic itself is NOT decided"
GROUPS = [
    Group("tab/tableau", "lib_tableau.c", tus=["lib_mpq.c", "allocrus.c"], model=MODEL, defines=["FN_tableau"], dfcc=False, unwind=6, kind="bounded", bound=BB,
          flags=["--no-malloc-may-fail"], functions=["ILLlib_tableau"], props=["C13", "C07", "C17"], assumed=[ASM]),
    Group("tab/basis_order", "lib_tableau.c", tus=["lib_mpq.c", "allocrus.c"], model=MODEL, defines=["FN_basis_order"], dfcc=False, unwind=6, kind="bounded", bound=BB,
          flags=["--no-malloc-may-fail"], functions=["ILLlib_basis_order"], props=["C13", "C17"], assumed=[ASM]),
    Group("tab/qs_gates", "lib_tableau.c", tus=["qsopt_mpq.c", "allocrus.c"], model=MODEL, defines=["FN_qs_gates"], dfcc=False, unwind=6, kind="proved",
          functions=["QSget_binv_row", "QSget_tableau_row", "QSget_basis_order"], props=["C13", "C07", "C05", "C17"],
          note="loop-free wrappers; library callee stubbed", assumed=["tab/qs_gates: ILLlib_tableau / ILLlib_basis_order are nondeterministic stubs"]),
]
