from vlib.pipeline import Group
MODEL = ["@model/gmp_model.c", "@model/io_model.c", "@model/globals_mpq.c"]
EXACT = ["QSV_GMP_EXACT", "QSV_NARROW"]
LIT = "literals number['/'number], number = [sign] up to 2 integer digits ['.' up to 1 fraction digit] [(e|E)[sign] one digit <= 1]; arbitrary terminator; loops completely unwound; exact integer model with overflow asserted absent"
def lit(name, defs, bound, must, unwind, tier="quick"):
    return Group("lpnum/" + name, "lpnum_readstr.c", tus=["eg_lpnum.c", "read_lp_mpq.c"], model=MODEL, defines=["FN_wellformed"] + defs + EXACT, dfcc=False,
                 unwind=unwind, kind="bounded", bound=bound + "; arbitrary terminator; loops completely unwound; exact integer model (narrow), overflow asserted absent",
                 timeout=1500, namebuf=512, must_fail=["reach_end"] + must, tier=tier,
                 functions=["mpq_EGlpNumReadStrXc", "ILLget_value"], props=["C10", "C11", "C17"])


def errfmt(fn, tu, funcs):
    return Group("rdr/errfmt_" + fn, "reader_errfmt.c", tus=[tu], model=MODEL, defines=["FN_" + fn], dfcc=False, unwind=8, kind="bounded", namebuf=512,
                 bound="formatted message length symbolic up to 2000 (the local buffer has 256 bytes); the current input line is an arbitrary string of at most 5 bytes; reader buffer capacity reduced to 512",
                 must_fail=["reach_end", "reach_long_message"], functions=funcs, props=["C11", "C17"],
                 ignore=[(r"strcpy src/dst overlap", "CBMC's strcpy model demands different objects")],
                 assumed=["rdr/errfmt: vsprintf/vsnprintf/strlen are modelled (arbitrary formatted length; vsprintf's precondition 'destination has room' asserted); ILLformat_error_create/delete are stubs"])


GROUPS = [
    errfmt("lp_err", "read_lp_mpq.c", ["lp_err", "ILLlp_error", "ILLlp_warn", "ILLread_lp_state_print_at"]),
    errfmt("mps_err", "read_mps_mpq.c", ["mps_err", "ILLmps_error", "ILLmps_warn"]),
    errfmt("ILLmsg", "rawlp_mpq.c", ["ILLmsg", "ILLdata_error", "ILLdata_warn"]),
    lit("single", ["NODIV", "ID=3", "FD=1", "MAXE=1"], "single numbers [sign] up to 3 integer digits ['.' up to 1 fraction digit] [(e|E)[sign] digit <= 1]", [], 12),
    lit("fraction", ["DIV", "ID=1", "FD=0", "MAXE=1"], "fractions number '/' number, number = [sign] 1 integer digit [(e|E)[sign] digit <= 1]",
        ["reach_fraction_of_decimals", "reach_zero_divisor"], 16),
    Group("lpnum/anybytes", "lpnum_readstr.c", tus=["eg_lpnum.c", "read_lp_mpq.c"], model=MODEL, defines=["FN_anybytes"] + EXACT, dfcc=False,
          unwind=8, kind="bounded", bound="every string of at most 5 bytes over {0,7,.,+,-,/,space,x}; loops completely unwound", timeout=900, namebuf=512,
          functions=["mpq_EGlpNumReadStrXc"], props=["C11", "C17"]),
    Group("lpnum/anybytes_tok", "lpnum_readstr.c", tus=["eg_lpnum.c", "read_lp_mpq.c"], model=MODEL, defines=["FN_anybytes", "NB=4", "QSV_GMP_TOKENS"] + EXACT, dfcc=False, leak=True, flags=["--no-malloc-may-fail"],
          unwind=8, kind="bounded", bound="every string of at most 4 bytes over {0,7,.,+,-,/,space,x}; loops completely unwound; GMP model EXACT+NARROW with TOKENS", timeout=1500, namebuf=512,
          functions=["mpq_EGlpNumReadStrXc"], props=["C18", "C11", "C17"]),
    Group("rdr/mps_next_bound", "mps_bound.c", tus=["read_mps_mpq.c"], model=MODEL, dfcc=False, unwind=14, kind="bounded", namebuf=512,
          bound="constructed bound-value texts: optional leading blank, optional sign, INF or INFINITY in any letter case, followed by NUL / newline / blank / another character; loops completely unwound; reader buffer capacity 512",
          functions=["ILLmps_next_bound", "mps_skip_comment"], props=["C10", "C11", "C17"],
          assumed=["rdr/mps_next_bound: strncasecmp is modelled by a plain loop; the numeric path (get_double -> ILLget_value) is stubbed here and decided in lpnum/*"]),
] + [
    Group("rdr/lp_scan_" + nm, "lp_scan.c", tus=["read_lp_mpq.c", "lp_mpq.c"], model=MODEL, defines=["WHICH=%d" % k], dfcc=False, unwind=(90 if k in (2, 3) else 26), kind="bounded", namebuf=16, timeout=1200,
          must_fail=["reach_end"] + ({9: ["reach_minus_inf"], 11: ["reach_line_with_leading_blank"]}.get(k, [])),
          bound="every line content of at most 4 arbitrary bytes with or without trailing newline, cursor anywhere, stale bytes after the terminator; line source at end of file; loops completely unwound; reader buffer capacity reduced to 16 (so that a scan that runs past the line terminator reaches the end of the buffer inside the bound)",
          functions=fns, props=["C11", "C17"] + (["C10"] if k in (9, 12, 13) else []), ignore=[(r"strcpy src/dst overlap", "CBMC's strcpy model demands different objects")],
          assumed=["rdr/lp_scan: sscanf(\"%s\"), strncasecmp are modelled by plain loops; the line source returns end of file (next_line: one line first); the number scanner mpq_EGlpNumReadStrXc is replaced by its contract 'consumes 0..strlen characters' (decided, bounded, in lpnum/anybytes)"])
    for k, nm, fns in [(0, "skip_blanks", ["ILLread_lp_state_skip_blanks"]), (1, "next_field", ["ILLread_lp_state_next_field_on_line", "next_field"]), (2, "next_var", ["ILLread_lp_state_next_var", "ILLis_lp_name_char"]),
                       (3, "has_colon", ["ILLread_lp_state_has_colon"]), (4, "colon", ["ILLread_lp_state_colon"]), (5, "sign", ["ILLread_lp_state_sign"]), (6, "sense", ["ILLtest_lp_state_sense"]),
                       (7, "prev_field", ["ILLread_lp_state_prev_field"]), (8, "next_is", ["ILLtest_lp_state_next_is"]),
                       (9, "bound_value", ["ILLread_lp_state_possible_bound_value", "ILLread_lp_state_value", "ILLget_value"]), (10, "value", ["ILLread_lp_state_value", "ILLget_value"]),
                       (11, "next_line", ["ILLread_lp_state_next_line"]), (12, "keywords", ["ILLread_lp_state_next_var"]), (13, "free_word", ["ILLtest_lp_state_next_is"])]
] + [
    Group("rdr/mps_scan_" + nm, "mps_scan.c", tus=["read_mps_mpq.c"], model=MODEL, defines=["WHICH=%d" % k], dfcc=False, unwind=26, kind="bounded", namebuf=16, timeout=1200,
          bound="every line content of at most 4 arbitrary bytes with or without trailing newline, cursor anywhere, stale bytes after the terminator; loops completely unwound; reader buffer capacity reduced to 16",
          functions=fns, props=["C11", "C17"],
          assumed=["rdr/mps_scan: sscanf(\"%s\"), strncasecmp are modelled by plain loops; the numeric path (get_double -> ILLget_value) is stubbed here and decided in lpnum/*; the line source delivers one line and then end of file; vsnprintf (warning text) writes an empty string, the message formatting is decided in rdr/errfmt_*"])
    for k, nm, fns in [(0, "next_field", ["ILLmps_next_field", "mps_skip_comment"]), (1, "check_eol", ["ILLmps_check_end_of_line"]), (2, "next_coef", ["ILLmps_next_coef", "get_double"]),
                       (3, "next_line", ["ILLmps_next_line"]), (4, "next_bound", ["ILLmps_next_bound"])]
]

GROUPS += [
    Group("rawlp/mps_bounds", "rawlp_bounds.c", tus=["mps_mpq.c", "rawlp_mpq.c", "allocrus.c"], model=MODEL, dfcc=False, export_static=True, unwind=6, kind="bounded", namebuf=512, timeout=1200,
          bound="every sequence of at most 3 MPS bound records (LO UP FX FR MI PL BV UI LI) with values in -2..2 on 2 columns, each column integer-marked or not beforehand; loops completely unwound",
          flags=["--no-malloc-may-fail"], must_fail=["reach_end", "reach_negative_upper_only", "reach_integer_without_bounds"],
          functions=["mps_set_bound", "ILLraw_set_lowerBound", "ILLraw_set_upperBound", "ILLraw_set_fixedBound", "ILLraw_set_unbound", "ILLraw_set_binaryBound", "ILLraw_init_bounds", "ILLraw_fill_in_bounds"],
          props=["C10", "C17"], assumed=["rawlp/mps_bounds: static mps_set_bound called through goto-cc --export-file-local-symbols; ILLmps_warn is a counter"]),
]

GROUPS += [
    Group("rawlp/ranges", "rawlp_ranges.c", tus=["rawlp_mpq.c", "eg_lpnum.c"], model=MODEL, defines=["QSV_GMP_EXACT", "QSV_NARROW", "QSV_INF=1024"], dfcc=False, export_static=True, unwind=6, kind="bounded", namebuf=512, timeout=1200,
          bound="3 raw rows with arbitrary senses N/G/L/E, at most 2 RANGES entries on distinct rows, integer values in -3..3; exact pair arithmetic (GMP model EXACT+NARROW); loops completely unwound",
          flags=["--no-malloc-may-fail"], must_fail=["reach_end", "reach_negative_range_on_E_row", "reach_range_on_N_row"], functions=["transferRanges"],
          props=["C10", "C11", "C17"], assumed=["rawlp/ranges: static transferRanges called through goto-cc --export-file-local-symbols; ILLdata_error is a counter; at most one RANGES entry per row (enforced by mps.c add_ranges, not decided here)"]),
]


GROUPS += [
    Group("rawlp/objective", "rawlp_objective.c", tus=["rawlp_mpq.c", "eg_lpnum.c", "allocrus.c"], model=MODEL, defines=["QSV_GMP_EXACT", "QSV_NARROW", "QSV_INF=1024"], dfcc=False, export_static=True, unwind=5, kind="bounded", namebuf=512, timeout=1200,
          bound="2 raw columns mapped to distinct columns of a 3-column problem, at most 3 coefficient nodes per column on the objective row or 2 constraint rows (repeats allowed), integer values in -3..3; exact pair arithmetic (GMP model EXACT+NARROW); loops completely unwound",
          flags=["--no-malloc-may-fail"], must_fail=["reach_end", "reach_repeated_objective_term"], functions=["transferObjective"],
          props=["C10", "C17"], assumed=["rawlp/objective: static transferObjective called through goto-cc --export-file-local-symbols; ILLdata_warn is a counter"]),
]


GROUPS += [
    Group("mps/line_" + fn, "mps_lines.c", tus=["mps_mpq.c"], model=MODEL, defines=["FN_" + fn, "QSV_GMP_TOKENS"], dfcc=False, export_static=True, unwind=12, kind="bounded", namebuf=512, timeout=900,
          bound="one data line with at most 3 further fields, 2 rows, 2 columns; every callee outside mps.c returns an arbitrary result; the field loops are completely unwound; reader buffer capacity 512",
          flags=["--no-malloc-may-fail"], must_fail=["reach_end", "reach_rejected_record", "reach_accepted_record"], functions=[real],
          props=["C18", "C11", "C17"], assumed=["mps/line_*: static handlers called through goto-cc --export-file-local-symbols; the line scanner (ILLmps_next_field / next_coef / next_bound), the symbol table lookup and the raw-problem adders are arbitrary-result stubs; GMP model variant TOKENS"])
    for fn, real in [("col", "mps_read_col_line"), ("row", "add_row"), ("rhs", "add_rhs"), ("ranges", "add_ranges"), ("bounds", "add_bounds")]
]

STATICS = ["add_row", "add_col", "add_rhs", "add_ranges", "add_bounds", "mps_fill_in"]
GROUPS += [
    Group("mps/sections%d" % NL, "mps_sections.c", tus=["mps_mpq.c", "read_mps_mpq.c", "allocrus.c", "util.c"], model=MODEL, mem_gb=13, dfcc=False, export_static=True, unwind=14, unwindset=["mpq_ILLread_mps.0:%d" % (NL + 2)], kind="bounded", namebuf=16, leak=True, timeout=1500, object_bits=11,
          defines=["NLINES=%d" % NL], tier=tier,
          remove_bodies=["__CPROVER_file_local_mps_mpq_c_" + f for f in STATICS] + ["mpq_ILLmps_next_line", "mpq_ILLmps_error", "mpq_ILLmps_warn", "mpq_ILLmps_check_end_of_line"],
          bound="every file of at most %d lines, each a section header (ten keywords or an unknown word, field present or not) or a data line; loops completely unwound; reader buffer capacity 16" % NL,
          flags=["--no-malloc-may-fail"], must_fail=["reach_end", "reach_two_data_lines_processed", "reach_rejected_file"],
          functions=["ILLread_mps", "read_mps_section", "check_section_order", "read_mps_line_in_section", "read_mps_name", "read_mps_refrow", "read_mps_objnamesense", "read_mps_objsense", "read_mps_objname", "ILLmps_state_init", "ILLmps_set_section"],
          props=["C11", "C18", "C17"], assumed=["mps/sections: the line scanner (ILLmps_next_line), the data-line handlers, mps_fill_in, the symbol table constructor and ILLraw_init_rhs/ranges/bounds are ghost-recording stubs with arbitrary results (decided in rdr/mps_scan_*, mps/line_*, rawlp/*); strcmp on the section keywords is CBMC's model"])
    for NL, tier in [(3, "thorough")]   # about 11 minutes on a quiet machine, hence thorough; the 4-line variant exhausts the 20 GiB address-space limit (not registered)
]

GROUPS += [
    Group("rawlp/matrix_dup", "rawlp_matrix_dup.c", tus=["rawlp_mpq.c", "eg_lpnum.c", "allocrus.c"], model=MODEL, dfcc=False, export_static=True, unwind=5, kind="bounded", namebuf=512, timeout=900,
          remove_bodies=["mpq_ILLraw_colname"],
          bound="one constructed raw problem shape (an unused column before a column with a repeated term), symbolic coefficient values; loops completely unwound",
          flags=["--no-malloc-may-fail"], functions=["buildMatrix"], props=["C11", "C17"],
          assumed=["rawlp/matrix_dup: static buildMatrix called through goto-cc --export-file-local-symbols; ILLdata_warn is a counter; ILLraw_colname is a stub that checks its index; the general buildMatrix group (symbolic shapes) exhausts the solver and is not built"]),
    Group("rawlp/matrix_empty", "rawlp_matrix_dup.c", defines=["SHAPE2"], tus=["rawlp_mpq.c", "eg_lpnum.c", "allocrus.c"], model=MODEL, dfcc=False, export_static=True, unwind=5, kind="bounded", namebuf=512, timeout=900,
          remove_bodies=["mpq_ILLraw_colname"],
          bound="one constructed raw problem shape (an objective-only column before an ordinary column), symbolic coefficient values; loops completely unwound",
          flags=["--no-malloc-may-fail"], functions=["buildMatrix"], props=["C11", "C17"],
          assumed=["rawlp/matrix_dup: static buildMatrix called through goto-cc --export-file-local-symbols; ILLdata_warn is a counter; ILLraw_colname is a stub that checks its index; the general buildMatrix group (symbolic shapes) exhausts the solver and is not built"]),
]

GROUPS += [
    Group("lp/constraint_expr", "lp_expr.c", tus=["lp_mpq.c"], model=MODEL, defines=["QSV_GMP_EXACT", "QSV_NARROW", "QSV_GMP_TOKENS", "QSV_INF=1024"], dfcc=False, export_static=True, unwind=6, kind="bounded", namebuf=512, timeout=1200,
          bound="every token sequence of at most 3 terms (sign / coefficient / variable each present or not, variable known or new), values in -3..3; exact pair arithmetic with TOKENS; loops completely unwound; reader buffer capacity 512",
          flags=["--no-malloc-may-fail"], must_fail=["reach_end", "reach_three_terms", "reach_rejected"], functions=["ILLread_constraint_expr", "add_var"],
          props=["C10", "C11", "C18", "C17"], assumed=["lp/constraint_expr: the scanner functions (ILLread_lp_state_sign / possible_coef / next_var, decided in rdr/lp_scan_*), the symbol table lookup and the raw-problem adders are ghost-recording stubs"]),
]

GROUPS += [
    Group("lp/bounds", "lp_bounds.c", tus=["lp_mpq.c", "rawlp_mpq.c", "allocrus.c"], model=MODEL, dfcc=False, export_static=True, unwind=8, kind="bounded", namebuf=512, timeout=1500, mem_gb=4,
          remove_bodies=["mpq_ILLraw_colname"],
          bound="every stream of at most 5 tokens (value in -2..2, sense <= = >=, known / unknown column name, FREE) followed by a section keyword, 2 columns; loops completely unwound; reader buffer capacity 512",
          flags=["--no-malloc-may-fail"], must_fail=["reach_end", "reach_double_bounded_column", "reach_rejected"],
          functions=["read_bounds", "read_colname", "ILLraw_set_lowerBound", "ILLraw_set_upperBound", "ILLraw_set_fixedBound", "ILLraw_set_unbound", "ILLraw_init_bounds", "ILLraw_fill_in_bounds"],
          props=["C10", "C11", "C17"], assumed=["lp/bounds: static read_bounds called through goto-cc --export-file-local-symbols; the character scanner (possible_bound_value, bound_sense, next_var, next_is, prev_field; decided in rdr/lp_scan_*) is replaced by a token cursor; the symbol table lookup is a stub"]),
]

GROUPS += [
    Group("lp/one_constraint", "lp_constraint.c", tus=["lp_mpq.c"], model=MODEL, defines=["QSV_GMP_EXACT", "QSV_NARROW", "QSV_GMP_TOKENS", "QSV_INF=1024"], dfcc=False, unwind=5, kind="bounded", namebuf=512, timeout=900,
          bound="one constraint with 0..2 unit terms, every combination of new / repeated row name, sense present / missing, right-hand side present / missing, row creation succeeding / failing; loops completely unwound",
          flags=["--no-malloc-may-fail"], must_fail=["reach_end", "reach_accepted_two_terms", "reach_missing_rhs"], functions=["ILLread_one_constraint", "ILLread_constraint_expr", "add_var"],
          props=["C10", "C11", "C18", "C17"], assumed=["lp/one_constraint: the scanner functions, the symbol table lookup and the raw-problem adders are ghost-recording stubs"]),
]

GROUPS += [
    Group("lp/minmax", "lp_minmax.c", tus=["lp_mpq.c", "util.c"], model=MODEL, dfcc=False, export_static=True, unwind=12, kind="bounded", namebuf=512, timeout=900,
          bound="constructed first words: the six documented spellings in every letter case, four non-keywords; at / not at the beginning of the line; loops completely unwound",
          functions=["read_minmax"], props=["C10", "C11", "C17"], assumed=["lp/minmax: static read_minmax called through goto-cc --export-file-local-symbols; strcasecmp is modelled by a plain loop"]),
]

GROUPS += [
    Group("lp/sections", "lp_sections.c", tus=["lp_mpq.c", "read_lp_mpq.c", "util.c", "allocrus.c"], model=MODEL, defines=["QSV_GMP_TOKENS"], dfcc=False, export_static=True, unwind=12, kind="bounded", namebuf=16, leak=True, timeout=1200, mem_gb=6, object_bits=10,
          remove_bodies=["__CPROVER_file_local_lp_mpq_c_" + f for f in ["read_objective", "read_constraints", "read_bounds", "read_integer"]] + ["mpq_ILLread_lp_state_init", "mpq_ILLread_lp_state_next_field", "mpq_ILLread_lp_state_prev_field", "mpq_ILLlp_error", "mpq_ILLlp_warn"],
          bound="every choice of the section words the scanner may deliver (8 words, at / not at the beginning of a line, end of file or not) and every outcome of the section bodies; loops completely unwound; reader buffer capacity 16",
          flags=["--no-malloc-may-fail"], must_fail=["reach_end", "reach_accepted_with_bounds_and_integers", "reach_rejected_after_constraints"],
          functions=["ILLread_lp", "read_problem_name", "read_minmax", "ILLread_lp_state_keyword", "ILLtest_lp_state_keyword", "ILLread_lp_state_bad_keyword"],
          props=["C10", "C11", "C18", "C17"], assumed=["lp/sections: the section bodies (read_objective, read_constraints, read_bounds, read_integer), the field scanner, the symbol table constructor and the fill-in steps are ghost-recording stubs with arbitrary results; strcasecmp is modelled by a plain loop; GMP model variant TOKENS"]),
]

GROUPS += [
    Group("rawlp/check", "rawlp_check.c", tus=["rawlp_mpq.c", "allocrus.c"], model=MODEL, dfcc=False, export_static=True, unwind=5, kind="bounded", namebuf=512, timeout=900,
          remove_bodies=["mpq_ILLraw_colname", "mpq_ILLraw_rowname", "mpq_ILLdata_error"],
          bound="raw problems of 0..2 columns without special ordered sets, bound values in -2..2 or +-infinity, objective present or not; loops completely unwound",
          must_fail=["reach_end", "reach_only_last_column_bad"], functions=["ILLcheck_rawlpdata", "ILLraw_check_bounds"], props=["C11", "C17"],
          assumed=["rawlp/check: static ILLcheck_rawlpdata called through goto-cc --export-file-local-symbols; name accessors and ILLdata_error are stubs; the special-ordered-set part of the check is not reached"]),
]

GROUPS += [
    Group("rdr/mps_scan_marker", "mps_scan.c", tus=["read_mps_mpq.c", "mps_mpq.c", "util.c"], model=MODEL, defines=["WHICH=5", "WITH_MARKER"], dfcc=False, export_static=True, unwind=26, kind="bounded", namebuf=16, timeout=1200,
          bound="every line content of at most 4 arbitrary bytes (quotes included) with or without trailing newline, stale bytes after the terminator; loops completely unwound; reader buffer capacity reduced to 16",
          functions=["is_marker_line"], props=["C11", "C17"],
          assumed=["rdr/mps_scan_marker: static is_marker_line called through goto-cc --export-file-local-symbols; strncmp / strchr are CBMC's models"]),
]

GROUPS += [
    Group("lp/integer", "lp_integer.c", tus=["lp_mpq.c"], model=MODEL, dfcc=False, export_static=True, unwind=6, kind="bounded", namebuf=512, timeout=900,
          bound="every stream of at most 3 tokens (known / unknown column name, non-name) followed by a section keyword, 2 columns; loops completely unwound",
          must_fail=["reach_end", "reach_both_columns"], functions=["read_integer", "read_colname"], props=["C10", "C11", "C17"],
          assumed=["lp/integer: static read_integer called through goto-cc --export-file-local-symbols; the scanner is a token cursor, the symbol table lookup a stub"]),
]
