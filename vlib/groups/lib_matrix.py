from vlib.pipeline import Group
LIB = ["lib_mpq.c", "allocrus.c"]
MODEL = ["@model/gmp_model.c", "@model/io_model.c", "@model/globals_mpq.c"]
B = "2 rows x 3 columns (2 structural, arbitrary injective column map), arbitrary well-formed sparse layout (placement order, counts, holes, free tail <= 4, matsize <= 19); all loops completely unwound"
def B(nc):
    return "2 rows x %d columns (2 structural, arbitrary injective column map), arbitrary well-formed sparse layout (placement order, counts, holes, free tail <= 4); all loops completely unwound" % nc


def mat(fn, funcs, nc, tier, extra="", **kw):
    return Group("mat/%s_%dc" % (fn, nc), "lib_matrix.c", tus=LIB, model=MODEL, mem_gb=(4 if nc < 3 else 8), defines=["FN_" + fn, "NC=%d" % nc], dfcc=False, unwind=22, kind="bounded",
                 bound=B(nc) + extra, timeout=1500, tier=tier, functions=funcs, props=["C06", "C07", "C17"], **kw)


CUT = "; the realloc branch of matrix_addcoef (matrix_addrow_end, grows by EXTRA_MAT = 1000) is cut: excluded by precondition and asserted unreachable"
GROUPS = [
    mat("chgcoef", ["ILLlib_chgcoef", "matrix_addcoef"], 2, "quick", CUT, must_fail=["reach_end", "reach_new_entry"], cut=["matrix_addrow_end"]),
    mat("getcoef", ["ILLlib_getcoef", "matrix_getcoef"], 2, "quick"),
    mat("chgcoef", ["ILLlib_chgcoef", "matrix_addcoef"], 3, "thorough", CUT, must_fail=["reach_end", "reach_new_entry"], cut=["matrix_addrow_end"]),
    mat("getcoef", ["ILLlib_getcoef", "matrix_getcoef"], 3, "thorough"),
]

GROUPS += [
    Group("rows/init", "lpdata_rows.c", tus=["lpdata_mpq.c", "allocrus.c", "eg_lpnum.c"], model=MODEL, dfcc=False, unwind=7, kind="bounded", timeout=900, flags=["--no-malloc-may-fail"],
          bound="one constructed sparsity pattern (2 rows, 2 structural columns with 3 coefficients, 2 logicals), logical columns first or last, with / without logicals, symbolic values; loops completely unwound",
          functions=["ILLlp_rows_init"], props=["C06", "C17"]),
]

GROUPS += [
    Group("lib/getcols_lf%d" % lf, "lib_getcols.c", tus=LIB + ["eg_lpnum.c"], model=MODEL, defines=["LF=%d" % lf], dfcc=False, unwind=6, kind="bounded", timeout=900, flags=["--no-malloc-may-fail"],
          bound="one constructed sparsity pattern (2 rows, 2 structural columns with 3 coefficients, 2 logicals), logical columns %s, column list {1, 0}, symbolic values; loops completely unwound" % ("first (column map not the identity)" if lf else "last"),
          functions=["ILLlib_getcols"], props=["C06", "C17"])
    for lf in (0, 1)
]

GROUPS += [
    Group("lib/getrows_lf%d" % lf, "lib_getrows.c", tus=LIB + ["lpdata_mpq.c", "eg_lpnum.c"], model=MODEL, defines=["LF=%d" % lf, "QSV_GMP_TOKENS"], dfcc=False, unwind=7, kind="bounded", timeout=900, flags=["--no-malloc-may-fail"], leak=True,
          bound="one constructed sparsity pattern (2 rows, 2 structural columns with 3 coefficients, 2 logicals), logical columns %s, row list {1, 0}, with / without range array, symbolic values; loops completely unwound" % ("first (column map not the identity)" if lf else "last"),
          functions=["ILLlib_getrows", "ILLlp_rows_init"], props=["C06", "C18", "C17"], assumed=["lib/getrows: GMP model variant TOKENS"])
    for lf in (0, 1)
]
