from vlib.pipeline import Group
MODEL = ["@model/gmp_model.c", "@model/io_model.c", "@model/globals_mpq.c"]
BB = "nstruct, nrows in 1..3 (all loops completely unwound), arbitrary status codes, arbitrary column map and bounds; reader buffer capacity reduced to 512"
ASM = "bio/*: the TEXT layer of the basis file (EGioPrintf formatting, MPS line tokenising ILLmps_next_line/next_field, name lookup ILLlib_colindex/rowindex) is replaced by a record stream shared by both groups; that real text passes through it unchanged is NOT decided"
GROUPS = [
    Group("bio/write", "lib_basisio.c", tus=["lib_mpq.c", "allocrus.c"], model=MODEL, defines=["FN_write"], dfcc=False, unwind=14, kind="bounded", bound=BB, namebuf=512,
          flags=["--no-malloc-may-fail"], object_bits=11, must_fail=["reach_end", "reach_several_records"], functions=["ILLlib_writebasis"], props=["C14", "C17"], assumed=[ASM]),
    Group("bio/read", "lib_basisio.c", tus=["lib_mpq.c", "lpdata_mpq.c", "allocrus.c"], model=MODEL, defines=["FN_read"], dfcc=False, unwind=14, kind="bounded", bound=BB, namebuf=512,
          flags=["--no-malloc-may-fail"], functions=["ILLlib_readbasis"], props=["C14", "C17"], assumed=[ASM],
          ignore=[(r"strcpy src/dst overlap", "CBMC's strcpy model demands different objects")]),
    Group("bio/read_any", "lib_basisio.c", tus=["lib_mpq.c", "lpdata_mpq.c", "allocrus.c"], model=MODEL, defines=["FN_read_any"], dfcc=False, unwind=14, kind="bounded", namebuf=512, leak=True,
          bound="every sequence of at most 4 basis-file records (NAME, XL, XU, UL, LL, ENDATA, unknown key, unknown record type; with or without their column / row fields; names inside or outside the LP, or the objective row's name) for problems of at most 3 columns and 3 rows; loops completely unwound",
          flags=["--no-malloc-may-fail"], must_fail=["reach_end", "reach_accepted_with_records", "reach_rejected"], functions=["ILLlib_readbasis"], props=["C11", "C17", "C18"], assumed=[ASM],
          ignore=[(r"strcpy src/dst overlap", "CBMC's strcpy model demands different objects")]),
]
