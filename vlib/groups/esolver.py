from vlib.pipeline import Group
MODEL = ["@model/gmp_model.c", "@model/io_model.c", "@model/globals_mpq.c"]
GROUPS = [
    Group("es/main", "esolver_main.c", tus=["esolver.c"], model=MODEL, dfcc=False, unwind=12, kind="bounded", flags=["--no-malloc-may-fail"], std_checks=False,
          bound="at most 6 command-line options (an arbitrary sequence of distinct documented options, fixed short argument strings), problem of dimension 0 (the solution arrays are empty); all loops completely unwound",
          must_fail=["reach_end", "reach_optimal_written", "reach_infeasible_written"], functions=["main", "parseargs", "get_ftype"], props=["C19"],
          assumed=["es/main: ILLutil_bix_getopt hands out options in any order; every library call (QSread_prob, QSexact_solver, QSexact_print_sol, QSwrite_basis, ...) and the EGio layer are ghost-recording stubs with arbitrary results; EGioNParse is not linked (get_ftype is skipped through -L being one of the options or the type being arbitrary)"]),
]
GROUPS += [
    Group("es/print_sol", "exact_printsol.c", tus=["exact.c"], model=MODEL, dfcc=False, unwind=6, kind="bounded", flags=["--no-malloc-may-fail"],
          bound="fixed dimension 2 columns x 2 rows, values in -2..2, every combination of available/unavailable sections; loops completely unwound",
          must_fail=["reach_end", "reach_negative_value_listed"], functions=["QSexact_print_sol"], props=["C19", "C17"],
          assumed=["es/print_sol: the accessors (QSget_x_array ...), QSget_status/objval and EGioPrintf are stubs; mpq_get_str is the GMP model's (one character coding the number)"]),
]
