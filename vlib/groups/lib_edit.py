from vlib.pipeline import Group
LIB = ["lib_mpq.c", "allocrus.c"]
MODEL = ["@model/gmp_model.c", "@model/io_model.c", "@model/globals_mpq.c"]

GROUPS = [
    Group("lib/chgbnd", "lib_chgbnd.c", tus=LIB, model=MODEL,
          enforce=["mpq_ILLlib_chgbnd/contract_ILLlib_chgbnd"], props=["C06", "C07", "C17"],
          note="single-entry bound edit: rejection of bad index/selector with empty frame; stored value"),
]
