from vlib.pipeline import Group
LIB = ["lib_mpq.c", "allocrus.c"]
MODEL = ["@model/gmp_model.c", "@model/io_model.c", "@model/globals_mpq.c"]
MAPCAP = "index maps (structmap/rowmap) capped at 64 entries because the universal in-range fact needs a constant-range quantifier; loops closed by inductive invariants, no unwinding"


def lib(name, props, loops=None, nloops=None, harness="lib_simple.c", fn=None, **kw):
    fn = fn or name
    return Group("lib/" + name, harness, tus=LIB, model=MODEL, defines=["FN_" + name] + kw.pop("defines", []),
                 enforce=["mpq_ILLlib_%s/contract_ILLlib_%s" % (fn, fn)], props=props,
                 loops=loops, expect_loops=nloops, **kw)


GROUPS = [
    Group("lib/chgbnd", "lib_chgbnd.c", tus=LIB, model=MODEL, enforce=["mpq_ILLlib_chgbnd/contract_ILLlib_chgbnd"],
          props=["C06", "C07", "C17"]),
    lib("getbnd", ["C06", "C07", "C17"]),
    lib("chgobj", ["C06", "C07", "C17"]),
    lib("chgrhs", ["C06", "C07", "C17"]),
    lib("getrhs", ["C06", "C17"], loops="lib.json", nloops=1),
    lib("getsenses", ["C06", "C17"], loops="lib.json", nloops=1),
    lib("getintflags", ["C06", "C17"], loops="lib.json", nloops=2),
    lib("getobj", ["C06", "C17"], loops="lib.json", nloops=1, kind="bounded", bound=MAPCAP),
    lib("getbnds", ["C06", "C17"], loops="lib.json", nloops=1, kind="bounded", bound=MAPCAP),
    lib("getobj_list", ["C06", "C07", "C17"], loops="lib.json", nloops=1, kind="bounded", bound=MAPCAP.replace("64", "16"), defines=["QSV_MAPCAP=16"]),
    lib("getbnds_list", ["C06", "C07", "C17"], loops="lib.json", nloops=1, kind="bounded", bound=MAPCAP.replace("64", "16"), defines=["QSV_MAPCAP=16"]),
]
SB = "2 rows (fixed: size-header arrays), lists of at most 2 distinct entries, arbitrary initial senses/ranges satisfying the representation invariant; loops completely unwound"
GROUPS += [
    Group("lib/chgsense_b", "lib_sense.c", tus=LIB, model=MODEL, defines=["FN_chgsense"], dfcc=False, unwind=6, kind="bounded", bound=SB, flags=["--no-malloc-may-fail"],
          functions=["ILLlib_chgsense"], props=["C06", "C05", "C07", "C17"]),
    Group("lib/chgrange_b", "lib_sense.c", tus=LIB, model=MODEL, defines=["FN_chgrange"], dfcc=False, unwind=6, kind="bounded", bound=SB, flags=["--no-malloc-may-fail"],
          functions=["ILLlib_chgrange"], props=["C06", "C05", "C07", "C17"]),
]

GROUPS.append(lib("solution", ["C01", "C05", "C17"], loops="lib.json", nloops=6, fn="solution", unwindset=["mpq_ILLlib_solution.%d:1" % k for k in range(4, 12)],
                  assumed=["lib/solution: only the cache branch (C != NULL, cache dimensions equal to the problem's); the branch that asks the simplex for its current solution is unreachable under this precondition"]))

GROUPS.append(lib("getbasis", ["C12", "C14", "C17"], loops="lib.json", nloops=2, kind="bounded", bound=MAPCAP, must_fail=["reach_end", "reach_ranged_row_at_upper"]))

GROUPS.append(Group("lib/solution_simplex", "lib_solution_simplex.c", tus=LIB + ["eg_lpnum.c"], model=MODEL, dfcc=False, unwind=5, kind="bounded", timeout=900, flags=["--no-malloc-may-fail"],
                    bound="2 structural columns and 1 row (3 internal columns), logical column first or last, any subset of outputs, minimise or maximise; loops completely unwound",
                    functions=["ILLlib_solution"], props=["C01", "C06", "C05", "C17"],
                    assumed=["lib/solution_simplex: ILLsimplex_solution (the simplex' current vectors) is a stub delivering arbitrary values"]))
