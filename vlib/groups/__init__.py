"""registry of obligation groups: every module in this package exports GROUPS (list of pipeline.Group)"""
import importlib, pkgutil, os


def all_groups():
    out = []
    here = os.path.dirname(__file__)
    for m in sorted(pkgutil.iter_modules([here]), key=lambda m: m.name):
        mod = importlib.import_module("vlib.groups." + m.name)
        out += getattr(mod, "GROUPS", [])
    names = [g.name for g in out]
    assert len(names) == len(set(names)), "duplicate group names"
    return out
