from vlib.pipeline import Group
MODEL = ["@model/gmp_model.c", "@model/io_model.c", "@model/globals_mpq.c"]
GROUPS = [
    Group("qsc/QScopy_prob", "qs_copy.c", tus=["qsopt_mpq.c", "allocrus.c"], model=MODEL, dfcc=False,
          remove_bodies=["mpq_QScreate_prob", "mpq_QSfree_prob"], unwind=5, kind="bounded", flags=["--no-malloc-may-fail"],
          bound="nstruct <= 3 (column and integer-mark loops completely unwound, unwinding assertions on); nrows <= 4 and all values symbolic; every combination of present/absent pricing work arrays",
          must_fail=["reach_end", "reach_copy_ok"], functions=["QScopy_prob"], props=["C16", "C17"],
          assumed=["qsc/QScopy_prob: QScreate_prob (fresh empty problem, as qsopt.c:512), ILLlib_newrows/ILLlib_addcol (argument-recording stubs; their effect is C06), symbol table, ILLutil_str, reporter copy and QSfree_prob are stubs"]),
    Group("qsc/copy_mpq_dbl", "exact_copy.c", tus=["exact.c"], model=MODEL, defines=[], dfcc=False, unwind=6, kind="bounded", flags=["--no-malloc-may-fail"],
          bound="fixed dimension 2 columns x 2 rows x 3 coefficients, values in {-inf, -2..2, +inf}; loops completely unwound",
          functions=["QScopy_prob_mpq_dbl", "QScopy_array_mpq_dbl"], props=["C16", "C17"],
          assumed=["qsc/copy_mpq_*: query API of the rational problem and construction API of the target are stubs; mpq_get_d / mpf_set_q are the GMP model's payload copies (their accuracy -- within one unit in the last place -- is GMP's documented contract, assumed)"]),
    Group("qsc/copy_mpq_mpf", "exact_copy.c", tus=["exact.c"], model=MODEL, defines=["TO_MPF"], dfcc=False, unwind=6, kind="bounded", flags=["--no-malloc-may-fail"],
          bound="fixed dimension 2 columns x 2 rows x 3 coefficients, values in {-inf, -2..2, +inf}; loops completely unwound",
          functions=["QScopy_prob_mpq_mpf", "QScopy_array_mpq_mpf"], props=["C16", "C17"],
          assumed=["qsc/copy_mpq_*: query API of the rational problem and construction API of the target are stubs; mpq_get_d / mpf_set_q are the GMP model's payload copies (their accuracy -- within one unit in the last place -- is GMP's documented contract, assumed)"]),
]
