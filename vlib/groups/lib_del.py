from vlib.pipeline import Group
LIB = ["lib_mpq.c", "allocrus.c"]
MODEL = ["@model/gmp_model.c", "@model/io_model.c", "@model/globals_mpq.c"]
B = "2 structural columns, 2 rows (4 internal columns, arbitrary bijection), arbitrary well-formed sparse layout with optional holes and free tail, optional basis / norms / cache / range values / integer marks; at most 2 distinct indices deleted; all loops completely unwound; allocation failure not explored"
ASM = "del/*: ILLsymboltab_delete, ILLbasis_load and the row-copy cache (rA) are stubs"
BS = B.replace("arbitrary bijection", "structural-first or logical-first column order").replace("with optional holes and free tail", "without holes, with a free tail")


def dels(fn, funcs, props, small, nr=2, tier=None, **kw):
    return Group("del/%s%s%s" % (fn, "_s" if small else "", "" if nr == 2 else "_%dr" % nr), "lib_del.c", tus=LIB, model=MODEL, mem_gb=(7 if small else 10), defines=["FN_" + fn, "NR=%d" % nr] + (["LAYOUT_SMALL"] if small else []), dfcc=False, unwind=8 * nr, kind="bounded",
                 bound=(BS if small else B).replace("2 rows (4 internal", "%d rows (%d internal" % (nr, nr + 2)), timeout=3000, flags=["--no-malloc-may-fail"], tier=tier or ("quick" if small else "thorough"), functions=funcs, props=props, assumed=[ASM], **kw)


GROUPS = [
    dels("delrows", ["ILLlib_delrows", "delcols_work"], ["C06", "C05", "C01", "C07", "C12", "C17"], True, must_fail=["reach_end", "reach_cache_kept"]),
    dels("delcols", ["ILLlib_delcols", "delcols_work"], ["C06", "C07", "C12", "C17"], True),
    dels("delrows", ["ILLlib_delrows", "delcols_work"], ["C06", "C05", "C01", "C07", "C12", "C17"], False, must_fail=["reach_end", "reach_cache_kept"]),
    # the 3-row variant of del/delrows_s exhausts the 20 GiB address-space limit (removed from the registry)
    dels("delcols", ["ILLlib_delcols", "delcols_work"], ["C06", "C07", "C12", "C17"], False),
]

BF = "2 structural columns (empty: the matrix is concrete), 3 rows, structurals first; arbitrary row data, optional range values / integer marks, optional basis (arbitrary statuses with 3 basic), optional row / column norms, optional cached solution; a list of exactly %d row indices, each arbitrary (out of range, repeated, any order); all loops completely unwound; allocation failure not explored"
GROUPS += [
    Group("del/delrows_b3_n%d" % n, "lib_del.c", tus=LIB, model=MODEL, mem_gb=8, defines=["FN_delrows", "NR=3", "LAYOUT_FIXED", "NUM=%d" % n], dfcc=False, unwind=24, kind="bounded", bound=BF % n, timeout=3000,
          flags=["--no-malloc-may-fail"], tier="quick", functions=["ILLlib_delrows", "delcols_work"], props=["C05", "C06", "C07", "C12", "C17"], assumed=[ASM],
          must_fail=["reach_end", "reach_cache_kept"] + (["reach_descending_list_cache_kept"] if n == 2 else []))
    for n in (1, 2)
]
