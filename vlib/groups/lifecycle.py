from vlib.pipeline import Group
MODEL = ["@model/gmp_model.c", "@model/io_model.c", "@model/globals_mpq.c"]
TOK = ["QSV_GMP_TOKENS"]
B = "object sizes <= 2, strings <= 3 bytes; all loops completely unwound; allocation failure explored (CBMC default: malloc may return NULL)"


def life(fn, tus, funcs, **kw):
    return Group("life/" + fn, "lifecycle.c", tus=tus, model=MODEL, defines=["FN_" + fn] + TOK, dfcc=False, unwind=12, kind="bounded", bound=B, leak=True,
                 functions=funcs, props=["C18", "C17"], **kw)


GROUPS = [
    life("errmem", ["format_mpq.c", "allocrus.c", "util.c"], ["ILLerror_memory_create", "ILLadd_error_to_memory", "ILLformat_error_create", "ILLformat_error_delete", "ILLerror_memory_free"]),
    life("cache", ["lpdata_mpq.c", "allocrus.c"], ["ILLlp_cache_init", "ILLlp_cache_alloc", "ILLlp_cache_free"]),
    life("basis", ["lpdata_mpq.c", "qsopt_mpq.c", "allocrus.c"], ["ILLlp_basis_alloc", "ILLlp_basis_free", "QSget_basis", "QSfree_basis", "illbasis_to_qsbasis"]),
    life("reload", ["qsopt_mpq.c", "lpdata_mpq.c", "allocrus.c"], ["QSread_and_load_basis"],
         assumed=["life/reload: ILLlib_readbasis is a stub that, like lib.c:3320, begins with ILLlp_basis_init(B)"]),
    Group("life/basis_status_cache", "exact_gating.c", tus=["exact.c", "allocrus.c"], model=MODEL, defines=["FN_basis_status_leak"] + TOK, dfcc=False, std_checks=True, export_static=True,
          unwind=3, kind="proved", functions=["QSexact_basis_status"], props=["C18", "C17"], note="loop-free prefix of the function; callees stubbed as in exact/gating",
          assumed=["life/basis_status_cache: every callee of QSexact_basis_status is a stub (as in exact/gating); ILLlp_cache_free frees the cache's arrays only"]),
]

GROUPS += [
    Group("life/rawlp_free", "rawlp_free.c", tus=["rawlp_mpq.c", "symtab.c", "allocrus.c", "eg_lpnum.c"], model=MODEL, mem_gb=7, defines=TOK, dfcc=False, unwind=8, kind="bounded", leak=True, namebuf=(512, 160), timeout=1200,
          bound="raw problem of 2 columns and 2 rows, every optional part present or absent, 0..2 column coefficients and 0..2 range entries; allocator chunk capacity ILL_BIGCHUNK reduced from 64 KiB to 160 bytes (3 list nodes per chunk) and ILL_namebufsize to 512 in the scratch copy (one #define line each, must-fire); loops completely unwound",
          flags=["--no-malloc-may-fail"], must_fail=["reach_end", "reach_two_range_entries"], functions=["ILLfree_rawlpdata", "ILLraw_clear_matrix", "ILLraw_add_col_coef", "ILLraw_add_ranges_coef", "ILLcolptralloc", "ILLptrworld_delete", "ILLutil_bigchunkalloc"],
          props=["C18", "C10", "C17"], assumed=["life/rawlp_free: GMP model variant TOKENS (one heap token per initialised number)"]),
]

GROUPS += [
    Group("life/lpdata_sos", "lpdata_sos.c", tus=["rawlp_mpq.c", "lpdata_mpq.c", "dstruct_mpq.c", "reporter.c", "symtab.c", "allocrus.c", "eg_lpnum.c"], model=MODEL, defines=TOK, dfcc=False, export_static=True, unwind=6, kind="bounded", leak=True, namebuf=512, timeout=1200,
          bound="one special ordered set with two members on a problem of two columns (concrete layout, symbolic type and weights); loops completely unwound",
          flags=["--no-malloc-may-fail"], functions=["buildSosInfo", "ILLlpdata_init", "ILLlpdata_free", "ILLmatrix_free"],
          props=["C18", "C17"], assumed=["life/lpdata_sos: static buildSosInfo called through goto-cc --export-file-local-symbols; GMP model variant TOKENS; ILLlp_rows_clear / ILLlp_sinfo_free are empty stubs (members absent)"]),
]

GROUPS += [
    Group("life/set_mpf_zero", "lpnum_setmpf.c", tus=["eg_lpnum.c"], model=MODEL, defines=TOK, dfcc=False, unwind=9, kind="bounded", leak=True, timeout=600,
          bound="input zero only (the non-zero continued-fraction path is not decided); loop-free on this path",
          flags=["--no-malloc-may-fail"], functions=["mpq_EGlpNumSet_mpf"], props=["C18", "C17"],
          assumed=["life/set_mpf_zero: GMP model variant TOKENS, extended to mpf numbers (mpf_init allocates limbs in the real library)"]),
]

GROUPS += [
    Group("life/load_norms", "qs_load_norms.c", tus=["qsopt_mpq.c", "lpdata_mpq.c", "allocrus.c", "eg_lpnum.c"], model=MODEL, defines=TOK, dfcc=False, unwind=5, kind="bounded", leak=True, timeout=900,
          bound="problem of 1 column and 2 rows (size-header arrays need compile-time lengths), old basis absent / with / without row and column norms, symbolic norm values; loops completely unwound",
          flags=["--no-malloc-may-fail"], must_fail=["reach_end", "reach_old_basis_with_row_norms"], functions=["QSload_basis_and_row_norms_array", "QSload_basis_array", "check_basis_arrays", "ILLlp_basis_free"],
          props=["C18", "C12", "C17"], assumed=["life/load_norms: GMP model variant TOKENS"]),
]

GROUPS += [
    Group("life/create_free", "qs_create_free.c", tus=["qsopt_mpq.c", "lpdata_mpq.c", "dstruct_mpq.c", "reporter.c", "symtab.c", "allocrus.c"], model=MODEL, defines=TOK, dfcc=False, unwind=8, kind="bounded", leak=True, timeout=900,
          bound="problem name absent or 2 characters; every allocation may fail (CBMC default); loops completely unwound",
          must_fail=["reach_end", "reach_creation_failed"], functions=["QScreate_prob", "QSfree_prob", "ILLlpdata_init", "ILLlpdata_free"],
          props=["C18", "C17"], assumed=["life/create_free: ILLsimplex_init/free/load_lpinfo and ILLprice_init/free_pricing_info are stubs that own nothing; GMP model variant TOKENS"]),
]

GROUPS += [
    Group("life/grab_basis", "qs_grab_basis.c", tus=["qsopt_mpq.c", "lpdata_mpq.c", "allocrus.c", "eg_lpnum.c"], model=MODEL, defines=TOK, dfcc=False, export_static=True, unwind=5, kind="bounded", leak=True, timeout=900,
          bound="problem of 1 column and 2 rows; stored basis absent, of the same shape or of the transposed shape, with / without row and column norms; loops completely unwound",
          flags=["--no-malloc-may-fail"], must_fail=["reach_end", "reach_reshaped_with_old_norms"], functions=["grab_basis", "ILLlp_basis_free", "ILLlp_basis_init"],
          props=["C17", "C18", "C12"], assumed=["life/grab_basis: static grab_basis called through goto-cc --export-file-local-symbols; ILLlib_getbasis (decided in lib/getbasis) and ILLlib_getrownorms are arbitrary-result stubs; GMP model variant TOKENS"]),
]

GROUPS += [
    Group("life/grab_cache", "qs_grab_cache.c", tus=["qsopt_mpq.c", "lpdata_mpq.c", "allocrus.c", "eg_lpnum.c"], model=MODEL, defines=TOK, dfcc=False, unwind=5, kind="bounded", leak=True, timeout=900,
          bound="problem of 1 column and 2 rows; stored solution absent, of the same shape or of the transposed shape; loops completely unwound",
          flags=["--no-malloc-may-fail"], must_fail=["reach_end", "reach_reshaped", "reach_failed_with_old_cache"], functions=["QSgrab_cache", "ILLlp_cache_init", "ILLlp_cache_alloc", "ILLlp_cache_free"],
          props=["C05", "C18", "C17"], assumed=["life/grab_cache: ILLlib_cache_solution is an arbitrary-result stub; GMP model variant TOKENS"]),
]

GROUPS += [
    Group("life/error_print", "qs_error_print.c", tus=["qsopt_mpq.c", "eg_io.c", "allocrus.c"], model=MODEL, dfcc=False, unwind=3, kind="proved", leak=True, timeout=600,
          flags=["--no-malloc-may-fail"], functions=["QSerror_print", "EGioOpenFILE", "EGioClose"], props=["C11", "C18", "C17"],
          note="loop-free; fclose is a ghost-recording stub, ILLformat_error_print (decided in life/errmem, rdr/errfmt_*) a stub"),
]
