import os, re
from vlib.pipeline import Group, REPO
MODEL = ["@model/gmp_model.c", "@model/io_model.c", "@model/globals_mpq.c"]


def max_iter():
    """the precision ladder has a compile-time bound; it is completely unwound (bound re-read on every run)"""
    try:
        m = re.search(r"#define\s+QS_EXACT_MAX_ITER\s+(\d+)", open(os.path.join(REPO, "qsopt_ex", "exact.h")).read())
        return int(m.group(1))
    except Exception:
        return 12


GATING_ASSUMED = ("exact/gating: every callee of QSexact_solver / QSexact_basis_status outside exact.c is a nondeterministic stub; "
                  "QSexact_optimal_test / QSexact_infeasible_test / optimal_output / infeasible_output / QScopy_prob_mpq_* are replaced by ghost contracts "
                  "(decided in their own groups); frame checking is not part of this group; solution arrays handed back by stubs have length 0")

GROUPS = [
    Group("exact/gating", "exact_gating.c", tus=["exact.c"], model=MODEL, dfcc=False, std_checks=False, slice=True,
          remove_bodies=["QSexact_optimal_test", "QSexact_infeasible_test", "optimal_output", "infeasible_output",
                         "QScopy_prob_mpq_dbl", "QScopy_prob_mpq_mpf"],
          unwind=max_iter() + 2, object_bits=10, timeout=900,
          must_fail=["reach_end", "reach_optimal", "reach_infeasible"],
          functions=["QSexact_solver", "QSexact_basis_status"], props=["C01", "C02"],
          note="precision ladder completely unwound (QS_EXACT_MAX_ITER + 2, unwinding assertions on)",
          assumed=[GATING_ASSUMED]),
]
