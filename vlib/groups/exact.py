import os, re
from vlib.pipeline import Group, REPO
MODEL = ["@model/gmp_model.c", "@model/io_model.c", "@model/globals_mpq.c"]


def max_iter():
    """the precision ladder has a compile-time bound; it is completely unwound (bound re-read on every run)"""
    try:
        m = re.search(r"#define\s+QS_EXACT_MAX_ITER\s+(\d+)", open(os.path.join(REPO, "qsopt_ex", "exact.h")).read())
        return int(m.group(1))
    except Exception:
        return 12


GATING_ASSUMED = ("exact/gating: every callee of QSexact_solver / QSexact_basis_status outside exact.c is a nondeterministic stub; "
                  "QSexact_optimal_test / QSexact_infeasible_test / optimal_output / infeasible_output / QScopy_prob_mpq_* are replaced by ghost contracts "
                  "(decided in their own groups); frame checking is not part of this group; solution arrays handed back by stubs have length 0")

EXACT = ["QSV_GMP_EXACT", "QSV_NARROW", "QSV_INF=1024", "QSV_GETD_NONDET"]
CHK_BOUND = "fixed dimension 2 rows x 2 structural columns (+2 logicals), integer data |v| <= 2 (bounds also +-infinity), candidate x |v| <= 4, arbitrary sparse layout incl. duplicate entries, both column orders; all loops completely unwound (unwinding assertions on); exact integer arithmetic with overflow asserted absent"
CHK_ASSUMED = "exact checkers: mpq_QSload_basis is a stub that fails arbitrarily and succeeds only for a basis of the problem's size holding status codes (its contract, decided in qsb/QSload_basis); ILLlp_cache_* are the real functions of lpdata.c; GMP = EXACT pair model (values stay integral in this bound); mpq_get_d returns an ARBITRARY double (the conversion is lossy: a verdict must not depend on it)"

def chk(fn, props, nr, ns, tier, timeout, vmax=2):
    bound = CHK_BOUND.replace("2 rows x 2 structural columns (+2 logicals)", "%d row(s) x %d structural column(s) (+%d logical(s))" % (nr, ns, nr)).replace("|v| <= 2", "|v| <= %d" % vmax).replace("|v| <= 4", "|v| <= %d" % (2 * vmax))
    return Group("exact/%s_%dx%d%s" % (fn, nr, ns, "" if vmax == 2 else "_v%d" % vmax), "exact_checkers.c", tus=["exact.c", "lpdata_mpq.c", "allocrus.c"], model=MODEL, mem_gb=4,
                 defines=["FN_" + fn, "NR=%d" % nr, "NS=%d" % ns, "VMAX=%d" % vmax] + EXACT, dfcc=False, unwind=2 * (nr + ns) + 2, kind="bounded", bound=bound,
                 timeout=timeout, tier=tier, must_fail=["reach_end", "reach_accept", "reach_reject"],
                 functions=["QSexact_optimal_test" if fn == "opttest" else "QSexact_infeasible_test"], props=props + ["C17"], assumed=[CHK_ASSUMED])


GROUPS = [
    chk("opttest", ["C01"], 1, 1, "quick", 900, vmax=1),
    chk("inftest", ["C02"], 1, 1, "quick", 900, vmax=1),
    chk("opttest", ["C01"], 1, 1, "thorough", 3000),
    chk("inftest", ["C02"], 1, 1, "thorough", 1500),
    chk("inftest", ["C02"], 1, 2, "thorough", 4000),
    chk("opttest", ["C01"], 1, 2, "thorough", 7200, vmax=1),
    chk("opttest", ["C01"], 2, 1, "thorough", 7200, vmax=1),
    chk("inftest", ["C02"], 2, 1, "thorough", 4000, vmax=1),
    Group("exact/gating", "exact_gating.c", tus=["exact.c"], model=MODEL, dfcc=False, std_checks=False, slice=True,
          remove_bodies=["QSexact_optimal_test", "QSexact_infeasible_test", "optimal_output", "infeasible_output",
                         "QScopy_prob_mpq_dbl", "QScopy_prob_mpq_mpf"],
          unwind=max_iter() + 2, object_bits=10, timeout=900,
          must_fail=["reach_end", "reach_optimal", "reach_infeasible"],
          functions=["QSexact_solver", "QSexact_basis_status"], props=["C01", "C02", "C18"],
          note="precision ladder completely unwound (QS_EXACT_MAX_ITER + 2, unwinding assertions on)",
          assumed=[GATING_ASSUMED]),
    Group("exact/output", "exact_gating.c", tus=["exact.c"], model=MODEL, defines=["FN_output_copy"], dfcc=False, export_static=True, unwind=4, kind="bounded",
          bound="vector length 2 (size-header arrays need a compile-time length); loops completely unwound", functions=["optimal_output", "infeasible_output"], props=["C01", "C02", "C17"],
          assumed=["exact/output: static functions called through goto-cc --export-file-local-symbols"]),
]

GROUPS += [
    Group("exact/verdict_" + fn, "exact_verdict.c", tus=["exact.c", "allocrus.c"], model=MODEL, defines=["FN_" + fn, "QSV_GMP_TOKENS"], dfcc=False, unwind=3, std_checks=True, leak=False, timeout=900,
          must_fail=["reach_end", cov], functions=["QSexact_basis_" + fn], props=["C12", "C05", "C18", "C17"],
          note="loop-free plumbing; every callee is an arbitrary-result ghost-recording stub",
          assumed=["exact/verdict: callees (QSload_basis, build_internal_lpinfo, ILLbasis_load/factor, ILLfct_compute_*, ILLfct_check_*, ILLfct_set_status_values) are nondeterministic stubs recording call order and arguments; their own contracts are decided in fct/*, basis/load, qsb/*"])
    for fn, cov in [("optimalstatus", "reach_optimal"), ("dualstatus", "reach_dual_infeasible")]
]

GROUPS += [
    Group("exact/verify", "exact_gating.c", tus=["exact.c"], model=MODEL, defines=["FN_verify"], dfcc=False, std_checks=False,
          remove_bodies=["QSexact_optimal_test", "QSexact_infeasible_test", "optimal_output", "infeasible_output", "QScopy_prob_mpq_dbl", "QScopy_prob_mpq_mpf"],
          unwind=3, timeout=900, must_fail=["reach_end", "reach_accepted_by_prestep", "reach_prestep_then_exact_test"],
          functions=["QSexact_verify", "QSexact_basis_dualstatus"], props=["C12", "C18"],
          note="loop-free plumbing (solution arrays of length 0); every callee outside exact.c is an arbitrary-result stub",
          assumed=[GATING_ASSUMED, "exact/verify: with messages enabled (msg_lvl == 0) the caller passes a dobjval (the message reads it)"]),
]

GROUPS += [
    Group("exact/gating_ebasis", "exact_gating.c", tus=["exact.c", "allocrus.c"], model=MODEL, defines=["FN_ebasis", "NSB=1", "NRB=2"], dfcc=False, std_checks=False, slice=True,
          remove_bodies=["QSexact_optimal_test", "QSexact_infeasible_test", "optimal_output", "infeasible_output", "QScopy_prob_mpq_dbl", "QScopy_prob_mpq_mpf"],
          unwind=max_iter() + 2, object_bits=10, timeout=1200, kind="bounded", flags=["--no-malloc-may-fail"],
          bound="basis objects of 1 column and 2 rows (solution arrays of length 0); precision ladder completely unwound (QS_EXACT_MAX_ITER + 2, unwinding assertions on)",
          must_fail=["reach_end", "reach_optimal_warm"], functions=["QSexact_solver", "QSexact_basis_status"], props=["C12", "C01", "C18"],
          assumed=[GATING_ASSUMED, "exact/gating_ebasis: the basis accessors of the floating-point solvers always deliver a basis (allocation failure is not the subject)"]),
]
