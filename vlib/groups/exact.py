import os, re
from vlib.pipeline import Group, REPO
MODEL = ["@model/gmp_model.c", "@model/io_model.c", "@model/globals_mpq.c"]


def max_iter():
    """the precision ladder has a compile-time bound; it is completely unwound (bound re-read on every run)"""
    try:
        m = re.search(r"#define\s+QS_EXACT_MAX_ITER\s+(\d+)", open(os.path.join(REPO, "qsopt_ex", "exact.h")).read())
        return int(m.group(1))
    except Exception:
        return 12


GATING_ASSUMED = ("exact/gating: every callee of QSexact_solver / QSexact_basis_status outside exact.c is a nondeterministic stub; "
                  "QSexact_optimal_test / QSexact_infeasible_test / optimal_output / infeasible_output / QScopy_prob_mpq_* are replaced by ghost contracts "
                  "(decided in their own groups); frame checking is not part of this group; solution arrays handed back by stubs have length 0")

EXACT = ["QSV_GMP_EXACT", "QSV_NARROW", "QSV_INF=1024"]
CHK_BOUND = "fixed dimension 2 rows x 2 structural columns (+2 logicals), integer data |v| <= 2 (bounds also +-infinity), candidate x |v| <= 4, arbitrary sparse layout incl. duplicate entries, both column orders; all loops completely unwound (unwinding assertions on); exact integer arithmetic with overflow asserted absent"
CHK_ASSUMED = "exact checkers: mpq_QSload_basis is a nondeterministic stub; ILLlp_cache_* are the real functions of lpdata.c; GMP = EXACT pair model (values stay integral in this bound)"

GROUPS = [
    Group("exact/opttest", "exact_checkers.c", tus=["exact.c", "lpdata_mpq.c", "allocrus.c"], model=MODEL, defines=["FN_opttest"] + EXACT,
          dfcc=False, unwind=8, kind="bounded", bound=CHK_BOUND, timeout=1500,
          must_fail=["reach_end", "reach_accept", "reach_reject"], functions=["QSexact_optimal_test"], props=["C01"], assumed=[CHK_ASSUMED]),
    Group("exact/inftest", "exact_checkers.c", tus=["exact.c", "lpdata_mpq.c", "allocrus.c"], model=MODEL, defines=["FN_inftest"] + EXACT,
          dfcc=False, unwind=8, kind="bounded", bound=CHK_BOUND, timeout=1500,
          must_fail=["reach_end", "reach_accept", "reach_reject"], functions=["QSexact_infeasible_test"], props=["C02"], assumed=[CHK_ASSUMED]),
    Group("exact/gating", "exact_gating.c", tus=["exact.c"], model=MODEL, dfcc=False, std_checks=False, slice=True,
          remove_bodies=["QSexact_optimal_test", "QSexact_infeasible_test", "optimal_output", "infeasible_output",
                         "QScopy_prob_mpq_dbl", "QScopy_prob_mpq_mpf"],
          unwind=max_iter() + 2, object_bits=10, timeout=900,
          must_fail=["reach_end", "reach_optimal", "reach_infeasible"],
          functions=["QSexact_solver", "QSexact_basis_status"], props=["C01", "C02"],
          note="precision ladder completely unwound (QS_EXACT_MAX_ITER + 2, unwinding assertions on)",
          assumed=[GATING_ASSUMED]),
]
