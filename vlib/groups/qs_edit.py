from vlib.pipeline import Group
QS = ["qsopt_mpq.c", "allocrus.c"]
MODEL = ["@model/gmp_model.c", "@model/io_model.c", "@model/globals_mpq.c"]
ASSUMED = "qsopt.c edit wrappers: the ILLlib_* callee is a nondeterministic stub (any return value); ILLlp_cache_free/ILLlp_basis_free/ILLsimplex_set_bound are ghost-recording stubs"

WRAPPERS = ["QSchange_coef", "QSchange_senses", "QSchange_sense", "QSchange_range", "QSnew_row",
            "QSchange_objcoef", "QSchange_rhscoef", "QSchange_bound", "QSchange_bounds",
            "QSnew_col", "QSadd_col", "QSadd_cols", "QSadd_rows", "QSadd_ranged_rows",
            "QSdelete_rows", "QSdelete_row", "QSdelete_cols", "QSdelete_col", "QSchange_objsense"]
# wrappers that call another wrapper: the inner one is replaced by ITS contract (proved in its own group)
INNER = {"QSchange_sense": "QSchange_senses", "QSdelete_row": "QSdelete_rows", "QSdelete_col": "QSdelete_cols"}

GROUPS = []
for w in WRAPPERS:
    rep = []
    GROUPS.append(Group("qs/" + w, "qs_edit.c", tus=QS, model=MODEL, defines=["FN_" + w],
                        enforce=["mpq_%s/contract_%s" % (w, w)], replace=rep,
                        props=["C05", "C07", "C17"], assumed=[ASSUMED]))

GROUPS.append(Group("qs/opt", "qs_opt.c", tus=QS, model=MODEL, dfcc=False, flags=["--no-malloc-may-fail"], kind="proved",
                    remove_bodies=["grab_basis", "mpq_QSgrab_cache", "mpq_QScopy_prob", "mpq_QSfree_prob"],
                    must_fail=["reach_end", "reach_warm", "reach_skipped"], functions=["QSopt_primal", "QSopt_dual", "opt_work"], props=["C05", "C01", "C17"],
                    note="loop-free; every callee is a ghost-recording stub",
                    assumed=["qs/opt: ILLlib_optimize (the simplex), grab_basis, QSgrab_cache, QScopy_prob, ILLlp_scale are nondeterministic ghost-recording stubs"]))

GROUPS.append(Group("qs/accessors", "qs_access.c", tus=QS, model=MODEL, dfcc=False, kind="proved", functions=["QSget_solution", "QSget_x_array", "QSget_slack_array", "QSget_rc_array", "QSget_pi_array", "QSget_named_x", "QSget_named_rc", "QSget_named_pi", "QSget_named_slack", "QSget_objval"],
                    props=["C05", "C01", "C07", "C17"], note="loop-free wrappers; library callees stubbed",
                    assumed=["qs/accessors: ILLlib_solution / get_x / get_slack / objval / colindex / rowindex are ghost-recording stubs (ILLlib_solution's cache branch is decided in lib/solution)"]))
