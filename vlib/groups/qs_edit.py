from vlib.pipeline import Group
QS = ["qsopt_mpq.c", "allocrus.c"]
MODEL = ["@model/gmp_model.c", "@model/io_model.c", "@model/globals_mpq.c"]
ASSUMED = "qsopt.c edit wrappers: the ILLlib_* callee is a nondeterministic stub (any return value); ILLlp_cache_free/ILLlp_basis_free/ILLsimplex_set_bound are ghost-recording stubs"

WRAPPERS = ["QSchange_coef", "QSchange_senses", "QSchange_sense", "QSchange_range", "QSnew_row",
            "QSchange_objcoef", "QSchange_rhscoef", "QSchange_bound", "QSchange_bounds",
            "QSnew_col", "QSadd_col", "QSadd_cols", "QSadd_rows", "QSadd_ranged_rows",
            "QSdelete_rows", "QSdelete_row", "QSdelete_cols", "QSdelete_col", "QSchange_objsense"]
# wrappers that call another wrapper: the inner one is replaced by ITS contract (proved in its own group)
INNER = {"QSchange_sense": "QSchange_senses", "QSdelete_row": "QSdelete_rows", "QSdelete_col": "QSdelete_cols"}

GROUPS = []
for w in WRAPPERS:
    rep = []
    kw = {}
    if w == "QSchange_senses":   # the wrapper walks the row list after a successful edit (loop contract; list length capped for the in-range fact)
        kw = dict(loops="qsopt_sense.json", expect_loops=1, kind="bounded", preinline=["mpq_QSchange_senses"],
                  bound="at most 64 rows and a row list of at most 64 entries (the 'every listed row is in range' fact the library edit guarantees needs a constant-range quantifier); the loop is closed by an inductive invariant, no unwinding; everything else symbolic")
    if w == "QSchange_sense":    # one-entry list: the loop of QSchange_senses runs once
        kw = dict(unwindset=["mpq_QSchange_senses.0:2"], defines_extra=["QSV_MAPCAP=8"])
    GROUPS.append(Group("qs/" + w, "qs_edit.c", tus=QS, model=MODEL, defines=["FN_" + w] + kw.pop("defines_extra", []),
                        enforce=["mpq_%s/contract_%s" % (w, w)], replace=rep,
                        props=["C05", "C07", "C17"], assumed=[ASSUMED], **kw))

GROUPS.append(Group("qs/opt", "qs_opt.c", tus=QS, model=MODEL, dfcc=False, flags=["--no-malloc-may-fail"], kind="proved",
                    remove_bodies=["grab_basis", "mpq_QSgrab_cache", "mpq_QScopy_prob", "mpq_QSfree_prob"],
                    must_fail=["reach_end", "reach_warm", "reach_skipped"], functions=["QSopt_primal", "QSopt_dual", "opt_work"], props=["C05", "C01", "C17"],
                    note="loop-free; every callee is a ghost-recording stub",
                    assumed=["qs/opt: ILLlib_optimize (the simplex), grab_basis, QSgrab_cache, QScopy_prob, ILLlp_scale are nondeterministic ghost-recording stubs"]))

GROUPS.append(Group("qs/accessors", "qs_access.c", tus=QS, model=MODEL, dfcc=False, kind="proved", functions=["QSget_solution", "QSget_x_array", "QSget_slack_array", "QSget_rc_array", "QSget_pi_array", "QSget_named_x", "QSget_named_rc", "QSget_named_pi", "QSget_named_slack", "QSget_objval"],
                    props=["C05", "C01", "C07", "C17"], note="loop-free wrappers; library callees stubbed",
                    assumed=["qs/accessors: ILLlib_solution / get_x / get_slack / objval / colindex / rowindex are ghost-recording stubs (ILLlib_solution's cache branch is decided in lib/solution)"]))

GROUPS += [
    Group("qs/chgsense_basis" + sfx, "qs_sense_basis.c", tus=["qsopt_mpq.c", "allocrus.c"], model=MODEL, defines=defs, dfcc=False, unwind=5, kind="bounded", timeout=900,
          bound="stored basis of 3 rows with arbitrary row statuses, sense lists of at most 2 entries (any rows, any of L G E R); loops completely unwound",
          must_fail=["reach_end", "reach_two_rows_changed"] if not defs else ["reach_end"], functions=[fn], props=["C05", "C17"],
          assumed=["qs/chgsense_basis: ILLlib_chgsense is an arbitrary-result stub (decided in lib/chgsense_b); 'ILLbasis_load accepts at-upper only for ranged rows' is the loader's rule (basis.c), decided for the loader in basis/load"])
    for sfx, defs, fn in [("", [], "QSchange_senses"), ("_1", ["FN_single"], "QSchange_sense")]
]

GROUPS.append(Group("qs/params", "qs_params.c", tus=QS, model=MODEL, dfcc=False, kind="proved", functions=["QSset_param", "QSget_param"], props=["C07", "C06", "C17"],
                    note="loop-free; every parameter code and every value (full int domain)"))
