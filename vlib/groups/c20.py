from vlib.pipeline import Group
from vlib import sites
MODEL = ["@model/gmp_model.c", "@model/io_model.c", "@model/globals_mpq.c"]
GROUPS = [
    Group("log/sites", "-", custom=sites.site_obligations, must_fail=(), props=["C20"], kind="proved",
          functions=["(all library translation units: enumeration of writer call sites)"],
          assumed=["log/sites: supporting static enumeration over the goto binaries of all library translation units (3 instantiations); sites audited as 'assumed' in contracts/c20_sites.json (debug printers, console editor, pointer comparisons) are not decided by a contract"]),
    Group("log/QSlogv", "log_qslogv.c", tus=["logging.c"], model=[], dfcc=False, props=["C20", "C17"], functions=["QSlog", "QSlogv", "QSlog_set_handler"],
          note="loop-free; message length symbolic up to 70000",
          assumed=["log/QSlogv: vsnprintf is modelled (reports an arbitrary length, writes min(len,size-1) characters + NUL); abort() does not return; malloc does not fail (its failure path is perror+abort)"]),
    Group("log/QSwrite_prob", "log_writeprob.c", tus=["qsopt_mpq.c", "allocrus.c", "reporter.c"], model=MODEL, dfcc=False, props=["C20", "C18", "C17"],
          must_fail=["reach_end", "reach_open_failed"], functions=["QSwrite_prob", "QSwrite_prob_EGioFile", "QSreport_prob"],
          assumed=["log/QSwrite_prob: EGioOpen/EGioOpenFILE/EGioClose/EGioWrite and ILLwrite_lp/ILLwrite_mps are ghost stubs"]),
    Group("log/next_line", "log_nextline.c", tus=["read_lp_mpq.c"], model=MODEL, dfcc=False, props=["C20", "C11", "C17"], unwind=8, kind="bounded", namebuf=512,
          bound="reader buffer capacity ILL_namebufsize reduced from 131072 to 512 (the one defining line in symtab.h, replaced in the scratch copy); input lines of at most 3 arbitrary non-NUL bytes, at most 3 lines per call; all loops completely unwound",
          functions=["ILLread_lp_state_next_line"], ignore=[(r"strcpy src/dst overlap", "CBMC's strcpy model demands different OBJECTS; line[] and realline[] are distinct member arrays of one struct and cannot overlap")], assumed=["log/next_line: the line source is a stub producing arbitrary short lines"]),
]
