from vlib.pipeline import Group
MODEL = ["@model/gmp_model.c", "@model/io_model.c", "@model/globals_mpq.c"]
FUNCS = ["ILLsymboltab_create", "ILLsymboltab_register", "ILLsymboltab_delete", "ILLsymboltab_lookup", "ILLsymboltab_contains", "ILLsymboltab_get", "look_it_up", "grow_symboltab", "grow_namelist", "add_string", "delete_from_list", "stringhash"]


def sym(k, cap, tier, timeout):
    return Group("sym/map%d_c%d" % (k, cap), "symtab_map.c", tus=["symtab.c", "allocrus.c", "util.c"], model=MODEL, defines=["K=%d" % k, "CAP0=%d" % cap], dfcc=False, unwind=14, kind="bounded", timeout=timeout,
                 flags=["--no-malloc-may-fail"], tier=tier,
                 bound="every history of at most %d operations (register / delete / lookup) over 5 names of length <= 2, from a table created with capacity %d (entry-table growth with re-hashing and string-pool growth, %d bytes, happen inside the bound); all loops completely unwound" % (k, cap, 5 * cap),
                 must_fail=["reach_end", "reach_grown"], functions=FUNCS, props=["C06", "C07", "C11", "C17"])


GROUPS = [sym(3, 1, "thorough", 1200), sym(4, 1, "thorough", 3000), sym(5, 2, "thorough", 6000)]
