from vlib.pipeline import Group
MODEL = ["@model/gmp_model.c", "@model/io_model.c", "@model/globals_mpq.c"]
FUNCS = ["ILLsymboltab_create", "ILLsymboltab_register", "ILLsymboltab_delete", "ILLsymboltab_lookup", "ILLsymboltab_contains", "ILLsymboltab_get", "look_it_up", "grow_symboltab", "grow_namelist", "add_string", "delete_from_list", "stringhash"]


def sym(k, cap, tier, timeout):
    return Group("sym/map%d_c%d" % (k, cap), "symtab_map.c", tus=["symtab.c", "allocrus.c", "util.c"], model=MODEL, defines=["K=%d" % k, "CAP0=%d" % cap], dfcc=False, unwind=14, kind="bounded", timeout=timeout,
                 flags=["--no-malloc-may-fail"], tier=tier, slice=True,
                 bound="every history of at most %d operations (register / delete / lookup) over 5 names of length <= 2, from a table created with capacity %d (entry-table growth with re-hashing and string-pool growth, %d bytes, happen inside the bound); all loops completely unwound" % (k, cap, 5 * cap),
                 must_fail=["reach_end", "reach_grown"], functions=FUNCS, props=["C06", "C07", "C11", "C17"])


def scen(n, what):
    return Group("sym/scenario%d" % n, "symtab_map.c", tus=["symtab.c", "allocrus.c", "util.c"], model=MODEL, defines=["SCENARIO=%d" % n, "CAP0=1"], dfcc=False, unwind=14, kind="bounded", timeout=900,
                 flags=["--no-malloc-may-fail"], bound="ONE fixed history of 5 operations from a table of capacity 1 (" + what + "); the whole name->entry view is compared with a reference set after every operation; loops completely unwound",
                 must_fail=["reach_end", "reach_grown"], functions=FUNCS, props=["C06", "C07", "C11", "C17"])


GROUPS = [scen(1, "register ab, ba, a: the second name misses the 5-byte string pool by exactly its terminating NUL"), scen(2, "register a, b, ab, then lookups: the entry table grows twice with re-hashing"),
          scen(3, "register a, b, ba; delete the last entry, delete another entry: index cache invalidation"),
          scen(4, "register ab, a; delete ab; register b: the full string pool is compacted (more than half of it belongs to deleted names); lookup a")]   # the generic K-step exploration (sym(3, 1), sym(4, 1)) never finished within 6000 s and is not registered
