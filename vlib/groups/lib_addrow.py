from vlib.pipeline import Group
LIB = ["lib_mpq.c", "allocrus.c"]
MODEL = ["@model/gmp_model.c", "@model/io_model.c", "@model/globals_mpq.c"]
B = "2 structural columns + 1 existing row, structurals-first or logical-first, arbitrary sparse layout with holes, new row with at most 2 entries (1 in the *1 variants); %s; realloc branch of the matrix cut; reader buffer capacity 512 (name buffer); loops completely unwound; allocation failure not explored"
ASM = "addrow/*: ILLlib_findName, ILLsymboltab_register and ILLutil_str are stubs (the new name may collide)"
GROUPS = [
    Group("addrow/room1", "lib_addrow.c", tus=LIB, model=MODEL, mem_gb=8, defines=["CNT1"], dfcc=False, unwind=18, kind="bounded", bound=B % "row/column arrays have room for one more", timeout=1800, namebuf=512,
          flags=["--no-malloc-may-fail"], slice=True, cut=["matrix_addrow_end"], must_fail=["reach_end", "reach_added"], functions=["ILLlib_addrow", "matrix_addrow", "matrix_addcol"], props=["C06", "C07", "C17"], assumed=[ASM]),
    Group("addrow/grow1", "lib_addrow.c", tus=LIB, model=MODEL, mem_gb=10, defines=["CNT1", "FULL"], dfcc=False, unwind=18, kind="bounded", timeout=2400, namebuf=(512, None, 2),
          bound=B % "row/column arrays FULL (capacity == count): every per-row / per-column array must grow; the growth steps EXTRA_ROWS / EXTRA_COLS are reduced from 100 to 2 (the one line defining each is replaced in the instantiated source, the growth code is unchanged)",
          flags=["--no-malloc-may-fail"], slice=True, cut=["matrix_addrow_end"], must_fail=["reach_end", "reach_added"], functions=["ILLlib_addrow", "matrix_addrow", "matrix_addcol"], props=["C06", "C07", "C17"], assumed=[ASM]),
    Group("addrow/first", "lib_addrow_first.c", tus=LIB, model=MODEL, mem_gb=8, dfcc=False, unwind=18, kind="bounded", timeout=2400, namebuf=(512, None, 2),
          bound="2 empty structural columns, NO row yet (rowsize 0, every per-row array NULL), column arrays full (they grow as well); first row with 0..1 entries, arbitrary column index, sense byte, rhs, range, possibly colliding name; growth steps EXTRA_ROWS / EXTRA_COLS reduced from 100 to 2 (the one line defining each is replaced in the instantiated source); realloc branch of the matrix cut; loops completely unwound; allocation failure not explored",
          flags=["--no-malloc-may-fail"], slice=True, cut=["matrix_addrow_end"], must_fail=["reach_end", "reach_added_ranged", "reach_added_grow_cols"], functions=["ILLlib_addrow", "matrix_addrow", "matrix_addcol"], props=["C06", "C07", "C17"], assumed=[ASM]),
    # addrow/full (row/column arrays full: every array grows by 100) ran out of memory after 2576 s on the final tree and is not registered
]

GROUPS += [
    Group("addcol/room1", "lib_addrow.c", tus=LIB, model=MODEL, mem_gb=6, defines=["FN_addcol"], dfcc=False, unwind=18, kind="bounded", timeout=1800, namebuf=512,
          bound="start state of addrow/room1 (2 structural columns, 1 row, arbitrary sparse layout, logical first or last, room for one more column); new column with 0..1 entries, arbitrary row index, data and possibly colliding name; no basis; loops completely unwound",
          flags=["--no-malloc-may-fail"], slice=True, must_fail=["reach_end", "reach_added", "reach_bad_row_index"], functions=["ILLlib_addcol", "matrix_addcol"], props=["C06", "C07", "C17"], assumed=[ASM]),
] + [
    Group("addcol/grow%d" % c, "lib_addrow.c", tus=LIB, model=MODEL, mem_gb=8, defines=["FN_addcol", "FULL", "ACNT=%d" % c], dfcc=False, unwind=18, kind="bounded", timeout=2400, namebuf=(512, None, 2),
          bound="start state of addrow/grow1 (2 structural columns, 1 row, arbitrary sparse layout, logical first or last) with EVERY per-column array full (colsize == ncols, structsize == nstruct, matcolsize == ncols; integer marks present or not): the call must grow each of them; growth steps EXTRA_ROWS / EXTRA_COLS reduced from 100 to 2 (the one line defining each is replaced in the instantiated source); new column with exactly %d entries, arbitrary row index, data and possibly colliding name; no basis; the matrix has free space (its realloc branch is not reached); loops completely unwound" % c,
          flags=["--no-malloc-may-fail"], slice=True, must_fail=["reach_end", "reach_added", "reach_bad_row_index"], functions=["ILLlib_addcol", "matrix_addcol"], props=["C06", "C07", "C17"], assumed=[ASM])
    for c in (0, 1)
]

GROUPS += [
    Group("addrow/basis_c%d" % c, "lib_addrow.c", tus=LIB, model=MODEL, mem_gb=8, defines=["WITH_BASIS", "RCNT=%d" % c], dfcc=False, unwind=18, kind="bounded", timeout=2400, namebuf=512,
          bound=(B % "row/column arrays have room for one more").replace("new row with at most 2 entries (1 in the *1 variants)", "new row with exactly %d entries" % c) + "; the caller's basis object (arbitrary status codes, no norms) is passed",
          flags=["--no-malloc-may-fail"], slice=True, cut=["matrix_addrow_end"], must_fail=["reach_end", "reach_added"], functions=["ILLlib_addrow", "matrix_addrow", "matrix_addcol"], props=["C06", "C07", "C17"], assumed=[ASM])
    for c in (0, 1)
]
