HOOKS = {
    "guard": "QSOPT_EX_VERIF",
    "enable": "contracts and loop contracts are out of tree (/verif/contracts); checks compile /repo's sources with goto-cc -DQSOPT_EX_VERIF; no hook code exists in /repo at present",
    "baseline_off_cmd": "cd /repo && make check",
    "source_commits": [],
    "add_only": True,
}


def chk(pid, category, text, note, technique, design_ref):
    return {"property_id": pid, "quick_cmd": "./check %s --tier quick" % pid,
            "thorough_cmd": "./check %s --tier thorough" % pid,
            "evidence_file": "/verif/evidence/%s.json" % pid,
            "replay_cmd_template": "./check --replay {path}", "engine": "cbmc-contracts",
            "level_claimed": {"category": category, "text": text, "design_ref": design_ref},
            "level_note": note, "technique": technique}


CHECKS = [
    chk("C07", "proof",
        "Unbounded modular proofs (CBMC dfcc contract enforcement, symbolic array sizes up to 30000, no unwinding) that the functions under contract reject invalid arguments with a non-zero code and an empty frame, with all pointer/bounds/overflow checks discharged; function list in evidence.",
        "Trusted: CBMC, the GMP payload model, log stubs; callees not under contract are named in the evidence assumptions. Only the functions listed in the evidence are decided.",
        "CBMC code contracts (dfcc enforce + conditional assigns frame) on the real instantiated C sources",
        "DESIGN.md 4/C07"),
]

_NYB = "not built yet in this tree (planned in DESIGN.md); no check is registered, nothing is claimed"
NOT_APPLICABLE = [
    {"property_id": "C03", "reason": "completeness/termination and ground truth need a verified simplex+LU; no reachable contract expresses 'feasible set empty' or 'optimum value'"},
    {"property_id": "C04", "reason": "hyperproperty over configurations; consequence of C01 and C02 and C03; its only per-function mechanism (parameter transfer) is under C16"},
    {"property_id": "C08", "reason": "textual round trip through writer+reader stacks; needs a formal LP grammar and sequence reasoning CBMC does not have; leaf rules are under C10/C11"},
    {"property_id": "C09", "reason": "same as C08 for the MPS format"},
    {"property_id": "C15", "reason": "relation between two solves of different inputs (2-safety); not a single-call contract"},
] + [{"property_id": p, "reason": _NYB} for p in
     ["C01", "C02", "C05", "C06", "C10", "C11", "C12", "C13", "C14", "C16", "C17", "C18", "C19", "C20"]]
