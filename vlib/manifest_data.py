HOOKS = {
    "guard": "QSOPT_EX_VERIF",
    "enable": "contracts and loop contracts are out of tree (/verif/contracts); checks compile /repo's sources with goto-cc -DQSOPT_EX_VERIF; no hook code exists in /repo at present",
    "baseline_off_cmd": "cd /repo && make check",
    "source_commits": [],
    "add_only": True,
}


def chk(pid, category, text, note, technique, design_ref):
    return {"property_id": pid, "quick_cmd": "./check %s --tier quick" % pid,
            "thorough_cmd": "./check %s --tier thorough" % pid,
            "evidence_file": "/verif/evidence/%s.json" % pid,
            "replay_cmd_template": "./check --replay {path}", "engine": "cbmc-contracts",
            "level_claimed": {"category": category, "text": text, "design_ref": design_ref},
            "level_note": note, "technique": technique}


TECH = "CBMC 6.11 code contracts on the real instantiated C sources (goto-instrument --dfcc enforce/replace, loop contracts; bounded groups: full unwinding with unwinding assertions)"
NOTE = ("Trusted: CBMC 6.11, the GMP payload model (model/gmp_model.c), log/IO stubs; callees that are stubbed or assumed are named in the evidence "
        "file's assumptions; only the functions listed in the evidence are decided; groups labelled bounded are stand-ins and are not counted as proved. ")

CHECKS = [
    chk("C01", "proof",
        "Gating half: QSexact_solver (+ the real QSexact_basis_status) can return rval 0 with status OPTIMAL only after QSexact_optimal_test accepted exactly the vectors that are handed out; the 12-step precision ladder is completely unwound (compile-time bound re-read from exact.h, unwinding assertions on), callees outside exact.c are nondeterministic stubs. Also: the accessor chain that serves the certified vectors (ILLlib_solution cache branch under loop contracts, qsopt.c accessor wrappers), the copy-out functions optimal_output / infeasible_output, the checker QSexact_optimal_test as a bounded group (1x1 quick; larger in thorough) with a lossy mpq_get_d, and the objective-value formulas ILLfct_compute_pobj / compute_dobj in exact arithmetic (bounded 2x2).",
        NOTE + "Not decided: the direct rational simplex entry points (their OPTIMAL is simplex correctness); the checker QSexact_optimal_test itself is only covered where its own group is listed in the evidence.",
        TECH, "DESIGN.md 4/C01"),
    chk("C02", "proof",
        "Gating half: QSexact_solver can return rval 0 with status INFEASIBLE only after QSexact_infeasible_test accepted exactly the multipliers that are handed out (same group and configuration as C01).",
        NOTE + "Not decided: that ILLsimplex_infcertificate produces a ray that passes (completeness).",
        TECH, "DESIGN.md 4/C02"),
    chk("C05", "proof",
        "Invalidation half: every public edit wrapper of qsopt.c under contract: success drops the cached solution and marks the problem modified (I1), success of a matrix/dimension edit clears the factorization flag (I2), failure leaves cache/status/flag/basis untouched (I3); unbounded (loop-free) modular proofs with the library callee as a nondeterministic stub -- except QSchange_senses, whose row-list walk is closed by a loop invariant with the list length capped at 64 (labelled bounded). Also: the solve entry points QSopt_primal / QSopt_dual / opt_work (a solve re-reads the problem unless the factorization flag is set), the accessor wrappers (a modified problem serves no solution), ILLlib_chgsense / chgrange / delrows updating every dependent field (bounded), QSchange_senses / QSchange_sense keeping the stored basis loadable (no 'at upper' status for a row that is no longer ranged), QSchange_objsense installing the objective limit of the new sense, QSload_basis / QSload_basis_array / QSread_and_load_basis dropping the stored solution of the previous basis, QSgrab_cache.",
        NOTE + "Not decided: 'the next solve equals a from-scratch solve' (solver correctness).",
        TECH, "DESIGN.md 4/C05"),
    chk("C06", "proof",
        "Queries and single-entry edits of lib.c under contract at ghost indices (stored value is the value returned / the value given); unbounded where the loop does not read through an index map, otherwise map length capped (stated per group). Relocating and multi-entry edits as bounded groups against a dense reference view: ILLlib_chgcoef / getcoef (2-3 columns), ILLlib_delrows / delcols, ILLlib_chgsense / chgrange, ILLlib_addrow (arrays with room; every per-row / per-column array full so that each must grow; the very first row of a problem whose per-row arrays do not exist yet -- in the last two the growth steps EXTRA_ROWS / EXTRA_COLS are 2 instead of 100), and the symbol table (register / delete / lookup / index map, string pool compaction) on fixed operation scenarios; ILLlp_rows_init (row-major copy), ILLlib_getcols and ILLlib_getrows on a constructed pattern with the column map the identity or not; ILLlib_addcol against the dense reference view; the external / internal index mapping of ILLlib_solution.",
        NOTE, TECH, "DESIGN.md 4/C06"),
    chk("C07", "proof",
        "Modular proofs (CBMC dfcc contract enforcement, symbolic array sizes up to 30000) that the functions under contract reject invalid arguments with a non-zero code and an empty frame (conditional assigns), with all pointer/bounds/overflow checks discharged; QSset_param / QSget_param over every parameter code and value (loop-free, full domain); deletion lists that name an index twice, ILLlib_addcol with an out-of-range row index (nothing, the name table included, may change).",
        NOTE, TECH, "DESIGN.md 4/C07"),
    chk("C10", "other",
        "Bounded contract check of the exact literal scanner mpq_EGlpNumReadStrXc and of ILLget_value on CONSTRUCTED well-formed literals (integers, decimals, exponent forms, signed, fractions p/q of such numbers): the whole literal is consumed and the value is exactly the rational it spells (computed independently by integer arithmetic); omitted coefficient is 1; a zero divisor is rejected. Bounds (digits, exponent) stated per group. Also bounded groups for value-level rules above the scanner: infinity spellings of bound values (LP and MPS), the MPS BOUNDS table with the implicit-bound rules (mps_set_bound, ILLraw_set_*, ILLraw_fill_in_bounds) against an independent reference, the MPS RANGES interpretation (transferRanges) and 'repeated terms add up' for the objective (transferObjective), the last two in exact integer arithmetic; and the LP-format reader above the scanner with the scanner replaced by a token cursor: the constraint expression assembly (sign * coefficient, omitted coefficient 1), one constraint (sense, right-hand side), the bounds section against an independent reference parser of its grammar, the integer list, the objective-sense keyword in every letter case, and the section sequencer with the real keyword tests.",
        NOTE + "Not decided: grammar-level rules (keyword spellings, comments, line structure, sections), repeated-term merging in constraint rows in general (buildMatrix: symbolic-size allocations exhaust the solver; one constructed shape is checked), objective / constraint names and generated row names, digit counts beyond the stated bound.",
        TECH, "DESIGN.md 4/C10"),
    chk("C11", "other",
        "Per-function bounded contract checks of reader functions for every byte content of their (capacity-reduced) buffers: the literal scanner on arbitrary short strings (no division by zero, no out-of-bounds read), the three error formatters for every formatted length (no write outside the 256-byte buffer, error reaches the collector), next_line progress (consumes a line or sets eof). Also: twelve character-level scanners of the LP reader and five of the MPS reader on every line content of at most 4 bytes with arbitrary stale bytes behind the terminator (the cursor stays inside the line text; fields are terminated), the basis-file reader ILLlib_readbasis on every sequence of at most 4 records, QSerror_print leaving the caller's stream open, transferRanges on N rows, the symbol table scenarios, the MPS section state machine (ILLread_mps, read_mps_section, read_mps_line_in_section and the name / objective-sense handlers) on every file of at most 3 lines (thorough tier) -- no row is added after an accepted RHS / RANGES header, no column after a BOUNDS header, handlers only in the first occurrence of a section --, the four MPS data-line handlers with every callee returning arbitrary results, buildMatrix on one constructed shape (dropped column before a repeated term), ILLcheck_rawlpdata / ILLraw_check_bounds, and the LP reader's expression, constraint, bounds, integer and section functions on every token stream within their bounds.",
        NOTE + "Not decided: whole-file behaviour, compressed streams, reader functions not listed in the evidence; buffer capacity ILL_namebufsize is reduced from 131072 to 512 (16 for the character-level scanner groups) in the scratch copy for these groups (one #define line, must-fire); the LP section sequencer is checked with its section bodies stubbed (lp/sections); special ordered sets in the reader are beyond the tool (tried, see DESIGN.md 9.2).",
        TECH, "DESIGN.md 4/C11"),
    chk("C12", "other",
        "Verdict/plumbing layer only. (i) the exact verdict loops ILLfct_check_dfeasible / ILLfct_check_pfeasible under contract with inductive loop invariants (dfcc): FEASIBLE is answered only if no position violates the sign / bound condition (stated at a ghost position; position map capped at 64 entries); (ii) bounded contract checks of ILLbasis_load (status codes -> internal vstat/baz/nbaz/vindex, one basic variable per row position) and of QSload_basis / QSload_basis_array (well-formed bases accepted and stored entry by entry). (iii) ILLfct_compute_dz against its definition in exact arithmetic (bounded 2x2); (iv) ILLlib_getbasis under loop contracts (every returned status is the solver's status, through the column / row maps; maps capped at 64); (v) the plumbing of QSexact_basis_optimalstatus / QSexact_basis_dualstatus (basic solution recomputed for the basis under test, checks with tolerance zero, verdict taken from the flags), callees as arbitrary-result stubs; (vi) QSexact_verify: without the pre-step the exact dual test always runs on the caller's basis, a verdict 1 only comes from a passed exact test; (vii) QSexact_solver with the caller's in/out basis object: after rval 0 / OPTIMAL it holds every column and row status of the basis that passed the exact optimality test (bounded: 1 column, 2 rows).",
        NOTE + "Not decided: that the exact basic solution of a basis (B^-1 b, computed by the LU code) is what the verdict functions evaluate -- simplex/LU are out of reach (see C13); the 'infeasible => some position violates' direction of the verdict loops (existential).",
        TECH, "DESIGN.md 4/C12"),
    chk("C13", "other",
        "Extraction/ordering layer ONLY: bounded contract checks (2x2, arbitrary column bijection) that ILLlib_tableau hands out the requested inverse row in row order and the tableau row in external column order (structural j from internal column structmap[j], row i's logical from rowmap[i]) and that ILLlib_basis_order reports the external index of each basic column; loop-free proofs that QSget_binv_row / QSget_tableau_row / QSget_basis_order fail without a cached solution (basis, index range) and compute nothing then.",
        NOTE + "NOT decided: the LU arithmetic itself -- ILLfactor, ftran/btran, ILLfactor_update, ILLbasis_tableau_row (B^-1 B = I for every update history, singular matrices reported): these are stubs here; a change inside factor.c is not detected by this check.",
        TECH, "DESIGN.md 4/C13"),
    chk("C14", "proof",
        "Frame half ('writing does not consume the basis'): QSwrite_basis under contract with an empty assigns/frees clause on everything reachable from the problem (dfcc, loop contracts, symbolic basis sizes up to 30000) -- unbounded.  Round-trip half, bounded (nstruct, nrows <= 3): the real ILLlib_writebasis emits exactly enc(B) (k-th non-basic row paired with the k-th basic column, then UL records) and the real ILLlib_readbasis fed enc(B) returns B up to the documented lower<->free convention, both against ONE record-level specification of the file. ILLlib_getbasis (internal status -> codes) under loop contracts.",
        NOTE + "Not decided: the text layer of the basis file (EGioPrintf formatting, MPS line tokenising, name lookup) is replaced by a record stream in the round-trip groups.",
        TECH, "DESIGN.md 4/C14"),
    chk("C16", "other",
        "Bounded contract check of QScopy_prob (nstruct <= 3, loops completely unwound, everything else symbolic): independent (no pointer member of the copy's pricing info equals the source's, source untouched) and faithful (rows handed over in one block, k-th column receives the k-th structural column's entries, objective, bounds, name, integer mark; sense, display/scaling, pricing rules copied).",
        NOTE + "Not decided: conversion accuracy of the reduced-precision copies (GMP's mpq_get_d / mpf_set_q), what ILLlib_newrows/addcol do with their arguments (C06).",
        TECH, "DESIGN.md 4/C16"),
    chk("C17", "other",
        "Memory-safety / undefined-behaviour half, per function under contract: the union of the bounds, pointer, pointer-overflow, signed-overflow, conversion, shift, division-by-zero, frame (assigns/frees) and unwinding obligations of EVERY obligation group of every property (each function listed in the evidence, with the bound of its host group).",
        NOTE + "Not decided: safety of functions not under contract (simplex, pricing, LU, presolve, writers, most of the readers), uninitialised-value flow through them, whole call sequences beyond what the well-formedness preconditions carry, and bit-identical reproducibility across processes (a property of two executions).",
        TECH, "DESIGN.md 4/C17"),
    chk("C18", "other",
        "Bounded contract checks of object life cycles with CBMC's memory-leak check and a GMP model in which every initialised number owns a heap token: error memory create/add/free, solution cache alloc/free, basis alloc/export/free, QSread_and_load_basis on a problem that owns a basis, QSexact_basis_status discarding the stale cache (loop-free, callees stubbed), the output stream of QSwrite_prob closed exactly once, QSwrite_basis frees only its local conversion. Allocation failure is explored (malloc may return NULL). Also: the reader's intermediate problem (ILLfree_rawlpdata with the real pointer-world allocator, chunk capacity reduced), the basis-file reader on rejected files, QSexact_solver releasing every basis obtained during the precision ladder, QSexact_basis_optimalstatus / dualstatus releasing the stale cache, QSexact_verify releasing the pre-step's basis and copy, the MPS data-line handlers on every error position, the MPS reader's objective-name copy, ILLlpdata_free over special-ordered-set information, mpq_EGlpNumSet_mpf on zero, QScreate_prob / QSfree_prob with every allocation allowed to fail, grab_basis and QSgrab_cache over stored objects of another shape, QSload_basis_and_row_norms_array over an old basis with norms, the literal scanner and the LP expression reader on every path.",
        NOTE + "Not decided: leaks inside functions not listed in the evidence (QScreate_prob/QSfree_prob over a populated problem, readers' parse-error paths, simplex, LU), the EGlib slab pool, GMP's own allocator.",
        TECH, "DESIGN.md 4/C18"),
    chk("C19", "other",
        "Bounded contract checks of esolver's plumbing: the real main() with the real parseargs (arbitrary sequence of up to 6 documented options; library and EGio layer stubbed with arbitrary results): unreadable problem => non-zero exit and no solve; status line names exactly the returned status; body printed iff OPTIMAL; successful run closes the stream once; -b writes the problem's own basis after the solve; format chosen by extension (compression suffix ignored) or -L; exit value is the first error. The real QSexact_print_sol (2x2, accessors stubbed): every section lists precisely its non-zero entries under the right names with the right value strings.",
        NOTE + "Not decided: the compressed-stream layer and the file system, option argument parsing (atoi/strtod values), and that the printed solution passes the exact check of C01 beyond what C01 itself decides.",
        TECH, "DESIGN.md 4/C19"),
    chk("C20", "proof",
        "QSlogv contract (handler installed => handler called exactly once with the complete message, no fprintf/perror on a returning path; symbolic message length), QSwrite_prob (stdout only on request, open failure is an error), non-interactive reader never prompts; plus a static enumeration over the goto binaries of ALL library translation units (3 instantiations): every call site of a libc writer and every mention of stdout/stderr must be an audited site whose justification obligation holds.",
        NOTE + "Not decided: the sites audited as 'assumed' (debug printers behind TRACE-guarded calls are checked for the guard; console editor output; EGioClose pointer comparison); writes through streams the host itself passes in.",
        TECH + "; supporting static enumeration of writer call sites from the goto binaries", "DESIGN.md 4/C20"),
]

_NYB = "not built yet in this tree (planned in DESIGN.md); no check is registered, nothing is claimed"
NOT_APPLICABLE = [
    {"property_id": "C03", "reason": "completeness/termination and ground truth need a verified simplex+LU; no reachable contract expresses 'feasible set empty' or 'optimum value'"},
    {"property_id": "C04", "reason": "hyperproperty over configurations; consequence of C01 and C02 and C03; its only per-function mechanism (parameter transfer) is under C16"},
    {"property_id": "C08", "reason": "textual round trip through writer+reader stacks; needs a formal LP grammar and sequence reasoning CBMC does not have; leaf rules are under C10/C11"},
    {"property_id": "C09", "reason": "same as C08 for the MPS format"},
    {"property_id": "C15", "reason": "relation between two solves of different inputs (2-safety); not a single-call contract"},
] + [{"property_id": p, "reason": _NYB} for p in
     []]
