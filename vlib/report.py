"""classification of obligation results, known findings, evidence files, replay files"""
import json, os, re, subprocess, sys, time, shutil, tempfile
from . import pipeline as P

VERIF = P.VERIF

# evidence level per property (must agree with MANIFEST.json level_claimed.category)
from .manifest_data import CHECKS as _CH
PROP_LEVEL = {c['property_id']: c['level_claimed']['category'] for c in _CH}
TRUSTED_BASE = [
    "CBMC 6.11.0 (C front end, goto-instrument dfcc contract instrumentation, SAT back end, built-in libc models)",
    "model/gmp_model.c: GMP mpq/mpz/mpf functions modelled on 32-bit payloads (OPAQUE: arithmetic results nondeterministic; EXACT: exact pair arithmetic, overflow asserted absent)",
    "model/io_model.c: QSlog / ILL_report replaced by ghost-counting stubs unless the group says otherwise",
    "template instances (dbl, mpf, mpq) differ only in the numeric macro layer; the mpq instance is verified",
]


def load_known():
    p = os.path.join(VERIF, "known_findings.json")
    if not os.path.exists(p):
        return {"findings": [], "fixed": []}
    return json.load(open(p))


def match_known(prop, ob, known):
    for k in known.get("findings", []):
        if k["property"] != prop and prop not in k.get("also", []):
            continue
        if k.get("group") and k["group"] != ob.group:
            continue
        m = k.get("match", {})
        if "class" in m and m["class"] != ob.cls():
            continue
        if "desc" in m and not re.search(m["desc"], ob.desc):
            continue
        if "loc" in m and not re.search(m["loc"], ob.loc):
            continue
        return k
    return None


SAFETY_RE = re.compile(r"\.(pointer_dereference|pointer_arithmetic|pointer_primitives|array_bounds|overflow|division-by-zero|conversion|undefined-shift|frees|assigns|unwind|precondition_instance|memory-leak|no-body|enum-range)\.|gmp: (use|clear) of a number|vsprintf: the destination|CAR size")


def is_safety(ob):
    return bool(SAFETY_RE.search(ob.pid + " " + ob.desc))


def owners(g, ob):
    """which properties an obligation of group g belongs to"""
    if ob.pid in g.post_props:
        return g.post_props[ob.pid]
    for pat, props in g.post_props.items():
        if pat.startswith("re:") and re.search(pat[3:], ob.pid + " " + ob.desc):
            return props
    return g.props


def _parse_val(v):
    if v is None:
        return None
    s = str(v)
    m = re.match(r"^-?\d+$", s)
    if m:
        return int(s)
    m = re.match(r"^'(.)'$", s)
    if m:
        return ord(m.group(1))
    if s in ("TRUE", "true"):
        return 1
    if s in ("FALSE", "false"):
        return 0
    m = re.match(r"^(-?\d+)[uUlL]*$", s)
    if m:
        return int(m.group(1))
    return None


def extract_inputs(trace_steps):
    """named harness inputs = last value assigned to a plain identifier inside the harness/builders"""
    inp = {}
    seq = []
    for st in trace_steps:
        if re.match(r"^return_value_nondet_(int|uint|bool|char|long|double)(\$\d+)?$", st.get("lhs", "")):
            v = _parse_val(st.get("value"))
            seq.append(v if v is not None else 0)
            continue
        if "lhs" not in st:
            continue
        if not re.match(r"^(harness|qsv_\w+)$", st.get("fn", "")):
            continue
        lhs = st["lhs"]
        if not re.match(r"^[A-Za-z_]\w*$", lhs):
            continue
        v = _parse_val(st.get("value"))
        if v is not None:
            inp[lhs] = v
    if seq:
        inp["@seq"] = seq
    return inp


def native_replay(ws, g, inputs, outdir):
    """build the harness natively (ASan+UBSan) against the same instantiated sources and run it"""
    exe = os.path.join(outdir, "replay_bin")
    srcs = [os.path.join(VERIF, "harness", g.harness)]
    srcs += [ws.source_path(t) for t in g.model if t.startswith("@")]
    srcs += [os.path.join(VERIF, "model", "qsv_native.c")]
    srcs += [ws.source_path(t, g.namebuf) for t in g.tus]
    base = ["gcc", "-O0", "-g", "-w", "-fsanitize=address,undefined", "-fno-sanitize-recover=undefined",
            "-DQSOPT_EX_VERIF"] + ws.inc(g.namebuf) + ["-D" + d for d in g.defines]
    tail = ["-Wl,--allow-multiple-definition", "-no-pie", "-o", exe, "-lm"]
    cmd = base + srcs + tail
    try:
        p = subprocess.run(cmd, capture_output=True, text=True, timeout=300)
        if p.returncode != 0:
            # symbols of translation units that are not part of this group: functions become
            # "not linked" stubs that end the replay (exit 78), data become zero-filled storage
            und = sorted(set(re.findall(r"undefined reference to `([A-Za-z_]\w*)'", p.stderr)))
            if und:
                data = set()
                lib = os.path.join(P.REPO, ".libs", "libqsopt_ex.a")
                if os.path.exists(lib):
                    nm = subprocess.run(["nm", lib], capture_output=True, text=True).stdout
                    for ln in nm.splitlines():
                        f = ln.split()
                        if len(f) == 3 and f[1] in "BDCRbdr":
                            data.add(f[2])
                stub = os.path.join(outdir, "unlinked_stubs.c")
                with open(stub, "w") as fh:
                    fh.write("#include <stdio.h>\n#include <stdlib.h>\n")
                    for u in und:
                        if u in data:
                            fh.write("char %s[65536];\n" % u)
                        else:
                            fh.write("void %s(void) { printf(\"REPLAY: call to %s, which is not linked in this group\\n\"); exit(78); }\n" % (u, u))
                cmd = base + srcs + [stub] + tail
                p = subprocess.run(cmd, capture_output=True, text=True, timeout=300)
    except Exception as e:
        return {"built": False, "error": str(e)}
    if p.returncode != 0:
        return {"built": False, "error": p.stderr[-2000:]}
    inp = os.path.join(outdir, "inputs.txt")
    with open(inp, "w") as fh:
        for k, v in inputs.items():
            if k == "@seq":
                for x in v:
                    fh.write("@=%d\n" % x)
            else:
                fh.write("%s=%d\n" % (k, v))
    try:
        q = subprocess.run([exe, inp], capture_output=True, text=True, timeout=60, errors="replace",
                           env=dict(os.environ, ASAN_OPTIONS="detect_leaks=0:detect_odr_violation=0"))
    except subprocess.TimeoutExpired:
        return {"built": True, "ran": False, "error": "native replay timed out (possible hang)", "reproduced": True}
    out = (q.stdout + "\n" + q.stderr)[-4000:]
    reproduced = (q.returncode == 1 and "POSTCONDITION VIOLATED" in q.stdout) or "ERROR: AddressSanitizer" in q.stderr \
        or "runtime error:" in q.stderr or q.returncode < 0 or "GMP-MODEL-ASSERT" in q.stderr
    if q.returncode in (77, 78) or "pc points to the zero page" in q.stderr:
        reproduced = False   # precondition not met by the extracted inputs / harness calls a symbol that is not linked
    return {"built": True, "ran": True, "exit": q.returncode, "output": out, "reproduced": bool(reproduced),
            "cmd": " ".join(cmd[:6]) + " ... (harness + instantiated sources + model)"}


def write_replay(prop, g, ob, r, ws, allobs=()):
    d = os.environ.get("QSV_REPLAY_DIR") or os.path.join(VERIF, "replays")
    os.makedirs(d, exist_ok=True)
    name = "%s-%s-%s" % (prop, re.sub(r"[^A-Za-z0-9]+", "_", g.name), re.sub(r"[^A-Za-z0-9.]+", "_", ob.cls()))
    path = os.path.join(d, name + ".replay.json")
    steps = []
    if r.trace and ob.pid in r.trace:
        steps = r.trace[ob.pid].get("steps", [])
    inputs = extract_inputs(steps)
    rec = {"property": prop, "group": g.name, "harness": "harness/" + g.harness, "obligation": ob.as_dict(),
           "functions": g.functions, "cbmc_cmd": r.cmds[-1] if r.cmds else "", "inputs": inputs,
           "all_failed_obligations_of_group": [o.as_dict() for o in allobs],
           "trace_tail": steps[-60:], "native": None}
    reproduced = False
    if steps:
        tmp = tempfile.mkdtemp(prefix="qsv-replay-")
        try:
            nat = native_replay(ws, g, inputs, tmp)
        finally:
            shutil.rmtree(tmp, ignore_errors=True)
        rec["native"] = nat
        reproduced = bool(nat.get("reproduced"))
    rec["reproduced_on_real_code"] = reproduced
    with open(path, "w") as fh:
        json.dump(rec, fh, indent=1)
    return path, reproduced


def replay(path):
    """./check --replay <file>: rebuild the harness natively from /repo's current tree and re-run the inputs"""
    rec = json.load(open(path))
    from .groups import all_groups
    g = [x for x in all_groups() if x.name == rec["group"]]
    if not g:
        print("unknown group", rec["group"])
        return 2
    ws = P.Workspace()
    try:
        tmp = tempfile.mkdtemp(prefix="qsv-replay-")
        nat = native_replay(ws, g[0], rec.get("inputs", {}), tmp)
        shutil.rmtree(tmp, ignore_errors=True)
    finally:
        ws.close()
    print("obligation:", rec["obligation"]["id"], "-", rec["obligation"]["description"])
    print("inputs:", rec.get("inputs"))
    print(json.dumps(nat, indent=1))
    if nat.get("reproduced"):
        print("VIOLATION property=%s replay=%s" % (rec["property"], path))
        return 1
    return 0


def report(prop, tier, seed, groups, results, wall, ws, verbose=False, partial=False):
    known = load_known()
    tool_errors, violations, known_hits, vac = [], [], [], []
    n_obl = n_ok = n_guard = 0
    proved_obl = bounded_obl = 0
    solver_s = 0.0
    samples, gsum, nobody, fns_proved, fns_bounded = [], [], set(), set(), set()
    assumed = set()
    for g, r in zip(groups, results):
        solver_s += r.times.get("cbmc", 0)
        gs = {"group": g.name, "kind": g.kind, "functions": g.functions, "harness": g.harness,
              "enforce": g.enforce, "replace": g.replace, "loop_contracts": g.loops, "times_s": r.times,
              "obligations": 0, "discharged": 0}
        if g.bound:
            gs["bound"] = g.bound
        if r.error:
            tool_errors.append((g, r.error))
            gs["tool_error"] = r.error[:400]
            gsum.append(gs)
            continue
        for nb in r.no_body:
            nobody.add(nb)
        for a_ in g.assumed:
            assumed.add(a_)
        for pat, why in g.ignore:
            assumed.add("%s: obligations matching /%s/ are not counted: %s" % (g.name, pat, why))
        mine = 0
        for ob in r.obligations:
            if P._must_key(ob, set(g.must_fail)):
                n_guard += 1
                continue
            if prop != "ALL" and prop not in owners(g, ob):
                continue
            if prop == "C17" and not is_safety(ob):
                continue   # C17 = the union of the memory-safety / undefined-behaviour obligations of every group
            mine += 1
            n_obl += 1
            gs["obligations"] += 1
            if g.kind == "proved":
                proved_obl += 1
            else:
                bounded_obl += 1
            if ob.status == "SUCCESS":
                n_ok += 1
                gs["discharged"] += 1
                if len(samples) < 12 and ("postcondition" in ob.pid or "assert" in ob.pid or "assigns" in ob.pid) and \
                        not any(s["group"] == g.name for s in samples[-2:]):
                    samples.append(ob.as_dict())
            elif ob.status == "IGNORED-MODEL-LIMITATION":
                gs["ignored_model_limitation"] = gs.get("ignored_model_limitation", 0) + 1
                n_obl -= 1
                gs["obligations"] -= 1
            elif ob.status != "FAILURE":
                gs["undetermined"] = gs.get("undetermined", 0) + 1
            else:
                k = match_known(prop, ob, known)
                if k:
                    known_hits.append((k, ob))
                else:
                    violations.append((g, r, ob))
        for v in r.vacuous:
            vac.append((g, v))
        (fns_proved if g.kind == "proved" else fns_bounded).update(g.functions)
        gsum.append(gs)
    # ---- output
    rc = 0
    if verbose:
        for gs in gsum:
            print("  group %-34s %-8s obl=%-5d ok=%-5d cbmc=%6.1fs total=%6.1fs" % (gs["group"], gs["kind"], gs["obligations"],
                  gs["discharged"], gs["times_s"].get("cbmc", 0), gs["times_s"].get("total", 0)))
    for g, e in tool_errors:
        print("TOOL-ERROR group=%s: %s" % (g.name, e.strip().splitlines()[0][:300]))
        if verbose:
            print(e)
        rc = 2
    for g, v in vac:
        print("TOOL-ERROR group=%s: vacuity guard '%s' did not fail (precondition unsatisfiable or call does not return)" % (g.name, v.desc))
        rc = 2
    seen_known = set()
    for k, ob in known_hits:
        key = k.get("id") or k["what"]
        if key in seen_known:
            continue
        seen_known.add(key)
        print("KNOWN-FINDING: property=%s %s/%s %s" % (prop, ob.group, ob.cls(), k["what"]))
    nviol = 0
    bygroup = {}
    for g, r, ob in violations:
        bygroup.setdefault(g.name, (g, r, []))[2].append(ob)
    for gname, (g, r, obs) in bygroup.items():
        obs.sort(key=P.priority)
        top = obs[0]
        if r.trace and not (top.pid in r.trace):
            # the trace was taken for the best-ranked failure of the group (may be a known finding)
            for o2 in obs:
                if o2.pid in r.trace:
                    top = o2
                    break
        nviol += 1
        path, rep = write_replay(prop, g, top, r, ws, obs)
        for ob in obs[:6]:
            print("FAILED-OBLIGATION %s/%s: %s [%s]" % (g.name, ob.pid, ob.desc, ob.loc))
        if len(obs) > 6:
            print("  ... and %d more failed obligations in %s (listed in the replay file)" % (len(obs) - 6, g.name))
        print("VIOLATION property=%s replay=%s%s" % (prop, path, "" if rep else " no-failing-input-found"))
    if nviol:
        rc = 1
    # ---- evidence
    level = PROP_LEVEL.get(prop, "proof")
    if not samples:
        for g, r in zip(groups, results):
            for ob in r.obligations[:2]:
                samples.append(ob.as_dict())
            if len(samples) >= 4:
                break
    ev = {
        "property_id": prop, "tier": tier if tier in ("quick", "thorough") else "quick", "seed": seed, "level": level,
        "coverage": {
            "obligations": n_obl, "discharged": n_ok,
            "proved_unbounded_obligations": proved_obl, "bounded_obligations": bounded_obl,
            "vacuity_guards_checked": n_guard,
            "checker_cmd": "goto-cc | goto-instrument --dfcc <harness> --enforce-contract f/contract_f [--replace-call-with-contract g/contract_g] [--loop-contracts-file ... --apply-loop-contracts] | cbmc --bounds-check --pointer-check --pointer-overflow-check --signed-overflow-check --div-by-zero-check --conversion-check --undefined-shift-check --pointer-primitive-check --unwinding-assertions (exact commands per group in 'groups')",
            "back_end": "CBMC SAT (minisat2 built in) unless a group names another solver",
            "solver_time_s": round(solver_s, 2),
            "trusted_base": TRUSTED_BASE,
            "functions_under_contract_proved_unbounded": sorted(fns_proved),
            "functions_bounded_only": sorted(fns_bounded - fns_proved),
            "groups": gsum,
            "samples": samples[:12],
            "known_findings_reobserved": [k["what"] for k, _ in known_hits],
            "explanation": "obligations = CBMC properties generated from /repo's current working tree for the groups of this property "
                           "(contract postconditions, frame/assigns checks, loop-invariant base/step/decreases, pointer/bounds/overflow checks); "
                           "vacuity guards (assert(0) after the call, must FAIL) are counted separately; groups with kind=bounded are "
                           "bounded stand-ins (bound stated per group) and are never counted as proved.",
        },
        "assumptions": sorted(assumed) + ["functions without body reached by a verified function (CBMC treats them as returning nondeterministic values and writing nothing): " + (", ".join(sorted(nobody)) or "none")],
        "wall_s": round(wall, 2),
        "violations": nviol,
    }
    if not partial:
        os.makedirs(os.path.join(VERIF, "evidence"), exist_ok=True)
        with open(os.path.join(VERIF, "evidence", prop + ".json"), "w") as fh:
            json.dump(ev, fh, indent=1)
    print("%s tier=%s groups=%d obligations=%d discharged=%d guards=%d known=%d violations=%d tool_errors=%d wall=%.1fs" %
          (prop, tier, len(groups), n_obl, n_ok, n_guard, len(seen_known), nviol, len(tool_errors) + len(vac), wall))
    return rc
