"""C20 supporting enumeration: every call site of a libc writer function in the goto binaries of ALL
library translation units (all three template instantiations), taken from /repo's current tree.
A site = (function, callee, stream argument).  'direct' sites write to the process's stdout/stderr."""
import os, re
from concurrent.futures import ThreadPoolExecutor
from . import pipeline as P

WRITERS = ["printf", "fprintf", "vfprintf", "vprintf", "puts", "fputs", "fputc", "putc", "putchar", "fwrite",
           "perror", "write", "_IO_putc", "putc_unlocked", "fputc_unlocked", "putchar_unlocked", "fputs_unlocked",
           "fwrite_unlocked", "dprintf", "vdprintf", "__printf_chk", "__fprintf_chk", "__vfprintf_chk", "psignal", "puts_unlocked"]
NOSTREAM = {"printf", "vprintf", "puts", "putchar", "perror", "putchar_unlocked", "__printf_chk", "psignal", "puts_unlocked"}
STREAM_LAST = {"fputs", "fputc", "putc", "fwrite", "_IO_putc", "putc_unlocked", "fputc_unlocked", "fputs_unlocked", "fwrite_unlocked"}


def library_tus(ws):
    mk = open(os.path.join(P.REPO, "Makefile.am")).read()
    main = [os.path.basename(f) for f in P._mk_list(mk, "MAIN_SOURCE_FILES")]
    tsrc = [os.path.basename(f) for f in P._mk_list(mk, "TEMPLATE_SOURCE_FILES")]
    out = list(main)
    for f in tsrc:
        b, e = os.path.splitext(f)
        for t in P.TYPES:
            out.append("%s_%s%s" % (b, t, e))
    return out


def _split_args(s):
    args, depth, cur, instr = [], 0, "", False
    for ch in s:
        if ch == '"':
            instr = not instr
        if not instr:
            if ch in "([{":
                depth += 1
            elif ch in ")]}":
                depth -= 1
            elif ch == "," and depth == 0:
                args.append(cur.strip()); cur = ""; continue
        cur += ch
    if cur.strip():
        args.append(cur.strip())
    return args


def sites_of(ws, tu):
    gb = ws.compile_tu(tu)
    rc, out, err, dt = P.run(["goto-instrument", "--show-goto-functions", gb], timeout=300, what="show-goto-functions " + tu)
    res, fn, line = [], None, None
    pat = re.compile(r"CALL\s+(?:\S+\s*:=\s*)?(%s)\((.*)\)\s*$" % "|".join(re.escape(w) for w in WRITERS), re.S)
    text = out
    # goto-instrument breaks string literals across lines; join instruction lines up to the next comment
    blocks = re.split(r"\n\s*// ", text)
    for b in blocks:
        m = re.match(r"(\d+) file (\S+) line (\d+)(?: column \d+)? function (\S+)\n(.*)", b, re.S)
        if not m:
            continue
        fn, line, body = m.group(4), int(m.group(3)), m.group(5)
        first = body.strip()
        mm = pat.search(first.split("\n        // ")[0])
        if not mm:
            continue
        callee, argstr = mm.group(1), mm.group(2)
        args = _split_args(argstr)
        if callee in NOSTREAM:
            stream = "stderr" if callee in ("perror", "psignal") else "stdout"
        elif callee in STREAM_LAST:
            stream = args[-1] if args else "?"
        elif callee in ("write", "dprintf", "vdprintf"):
            stream = "fd:" + (args[0] if args else "?")
        else:
            stream = args[0] if args else "?"
        stream = re.sub(r"\s+", " ", stream)
        direct = bool(re.search(r"\b(stdout|stderr)\b", stream)) or stream in ("fd:1", "fd:2")
        res.append({"tu": tu, "file": os.path.basename(m.group(2)), "line": line, "function": fn, "callee": callee,
                    "stream": stream[:80], "direct": direct})
    return res


def enumerate_sites(ws, jobs=16):
    tus = library_tus(ws)
    with ThreadPoolExecutor(jobs) as ex:
        lists = list(ex.map(lambda t: sites_of(ws, t), tus))
    out = []
    for l in lists:
        out += l
    return tus, out


# ------------------------------------------------------------------------------------------------
# obligation level: every site that can reach stdout/stderr must be AUDITED (contracts/c20_sites.json)
# and its justification must hold on the current tree.
_STR = re.compile(r'"(?:[^"\\]|\\.)*"', re.S)


def parse_functions(text):
    """goto-instrument --show-goto-functions text -> {function: [instr]}; instr = dict(pos,label,text,file,line)"""
    fns = {}
    for chunk in re.split(r"\n\^{10,}\n", text):
        m = re.search(r"^(\S+) /\* \S+ \*/\n", chunk, re.M)
        if not m:
            continue
        name = m.group(1)
        body = chunk[m.end():]
        ins = []
        for b in re.split(r"\n\s*// ", "\n" + body):
            mm = re.match(r"(\d+) file (\S+) line (\d+)(?: column \d+)? function (\S+)\n(.*)", b, re.S)
            if not mm:
                continue
            t = mm.group(5).rstrip()
            lab = None
            ml = re.match(r"\s*(\d+):\s(.*)", t, re.S)
            if ml:
                lab, t = int(ml.group(1)), ml.group(2)
            ins.append({"pos": len(ins), "label": lab, "text": t.strip(), "file": os.path.basename(mm.group(2)), "line": int(mm.group(3))})
        fns[name] = ins
    return fns


def guarded_by(ins, pos, var):
    """instruction pos lies in a region  IF !(var != 0) THEN GOTO L ... L:  that has no other entry"""
    labels = {i["label"]: i["pos"] for i in ins if i["label"] is not None}
    for q in range(pos - 1, -1, -1):
        m = re.match(r"IF ¬\(%s (?:≠|>) 0\) THEN GOTO (\d+)$" % re.escape(var), ins[q]["text"])
        if not m:
            continue
        tgt = labels.get(int(m.group(1)))
        if tgt is None or tgt <= pos:
            continue
        # no jump from outside (q, tgt) into (q, pos]
        inner = {i["label"] for i in ins[q + 1:pos + 1] if i["label"] is not None}
        ok = True
        for i in ins:
            if q < i["pos"] < tgt:
                continue
            for g in re.findall(r"GOTO (\d+)", i["text"]):
                if int(g) in inner:
                    ok = False
        if ok:
            return True
    return False


def norm_fn(f):
    return re.sub(r"^(mpq|dbl|mpf)_", "T_", f)


def norm_file(f):
    return re.sub(r"_(mpq|dbl|mpf)\.", ".", f)


FORWARD0 = {"EGioOpenFILE": 0}


def scan_tu(ws, tu):
    gb = ws.compile_tu(tu)
    rc, out, err, dt = P.run(["goto-instrument", "--show-goto-functions", gb], timeout=300, what="show-goto-functions " + tu)
    return tu, parse_functions(out)


def collect(ws, jobs=16):
    tus = library_tus(ws)
    with ThreadPoolExecutor(jobs) as ex:
        parsed = dict(ex.map(lambda t: scan_tu(ws, t), tus))
    wpat = re.compile(r"^CALL\s+(?:\S+\s*:=\s*)?(%s)\((.*)\)$" % "|".join(re.escape(w) for w in WRITERS), re.S)
    sites = []
    assigned = {}     # tu -> set of plain global names assigned somewhere (outside __CPROVER_initialize)
    for tu, fns in parsed.items():
        asg = set()
        for fn, ins in fns.items():
            if fn.startswith("__CPROVER"):
                continue
            for i in ins:
                m = re.match(r"ASSIGN ([A-Za-z_]\w*) :=", i["text"])
                if m:
                    asg.add(m.group(1))
                for m in re.finditer(r"address_of\(([A-Za-z_]\w*)\)", i["text"]):
                    asg.add(m.group(1))     # address taken: may be written through a pointer
        assigned[tu] = asg
        for fn, ins in fns.items():
            for i in ins:
                t = i["text"]
                bare = _STR.sub('""', t)
                m = wpat.match(t)
                rec = None
                if m:
                    callee = m.group(1)
                    args = _split_args(m.group(2))
                    if callee in NOSTREAM:
                        stream = "stderr" if callee in ("perror", "psignal") else "stdout"
                    elif callee in STREAM_LAST:
                        stream = args[-1] if args else "?"
                    elif callee in ("write", "dprintf", "vdprintf"):
                        stream = "fd:" + (args[0] if args else "?")
                    else:
                        stream = args[0] if args else "?"
                    stream = re.sub(r"\s+", " ", _STR.sub('""', stream))
                    direct = bool(re.search(r"\b(stdout|stderr)\b", stream)) or stream in ("fd:1", "fd:2")
                    rec = {"callee": callee, "stream": "stdout" if "stdout" in stream else "stderr" if "stderr" in stream else stream[:80], "direct": direct}
                elif re.search(r"\b(stdout|stderr)\b", bare):
                    mm = re.match(r"^CALL\s+(?:\S+\s*:=\s*)?([A-Za-z_]\w*)\(", t)
                    what = ("->" + norm_fn(mm.group(1))) if mm else "mention"
                    rec = {"callee": what, "stream": "stdout" if re.search(r"\bstdout\b", bare) else "stderr", "direct": True}
                if rec:
                    rec.update({"tu": tu, "file": i["file"], "line": i["line"], "function": fn, "pos": i["pos"]})
                    sites.append(rec)
    return tus, parsed, assigned, sites


def site_obligations(ws, g):
    """custom group runner: returns (obligations, info)"""
    import json
    audited = json.load(open(os.path.join(P.VERIF, "contracts", "c20_sites.json")))["audited"]
    tus, parsed, assigned, sites = collect(ws)
    obs = []
    used = set()
    groups_needed = set()
    for s in sites:
        if not s["direct"]:
            continue
        key = (norm_file(s["file"]), norm_fn(s["function"]), s["callee"], s["stream"])
        name = "sites.%s.%s.%s.%s" % (key[1], key[2].replace("->", "to_"), key[3], s["tu"].replace(".c", ""))
        loc = "%s:%d %s" % (s["file"], s["line"], s["function"])
        a = [x for x in audited if x["function"] == key[1] and x["callee"] == key[2] and x["stream"] == key[3] and x.get("file", key[0]) == key[0]]
        if not a:
            obs.append(P.Obligation(g.name, name + ".%d" % s["line"], "C20: direct write to %s through %s in %s is not covered by any contract or audited justification" % (key[3], key[2], key[1]), "FAILURE", loc))
            continue
        a = a[0]
        used.add(id(a))
        ok, why = True, a["kind"]
        if a["kind"] == "guard":
            ins = parsed[s["tu"]][s["function"]]
            if a["var"] in assigned[s["tu"]]:
                ok, why = False, "the guard variable %s is assigned or has its address taken in %s" % (a["var"], s["tu"])
            elif not guarded_by(ins, s["pos"], a["var"]):
                ok, why = False, "the site is not inside a region guarded by %s" % a["var"]
            else:
                why = "inside an `if (%s)` region; %s is a file-local flag with initial value 0 that is never assigned in %s" % (a["var"], a["var"], s["tu"])
        elif a["kind"] == "cbmc":
            groups_needed.add(a["group"])
            why = "decided by obligation group " + a["group"]
        obs.append(P.Obligation(g.name, name + ".%d" % s["line"], "C20: direct-write site %s(%s) in %s is justified: %s" % (key[2], key[3], key[1], why), "SUCCESS" if ok else "FAILURE", loc))
    from .groups import all_groups
    have = {x.name for x in all_groups()}
    for gn in sorted(groups_needed):
        obs.append(P.Obligation(g.name, "sites.decided_by." + gn, "C20: the obligation group %s that decides an audited site is registered" % gn,
                                "SUCCESS" if gn in have else "FAILURE", ""))
    # audited entries that no longer exist are harmless; report them as info only
    obs.append(P.Obligation(g.name, "sites.enumeration", "C20: %d library translation units scanned, %d writer call sites / std-stream mentions, %d of them direct" %
                            (len(tus), len(sites), sum(1 for s in sites if s["direct"])), "SUCCESS", ""))
    return obs, {"groups_needed": sorted(groups_needed), "tus": len(tus), "sites": len(sites)}
