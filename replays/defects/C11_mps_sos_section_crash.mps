NAME sos
ROWS
 N obj
 L c1
COLUMNS
 S1 SOS1qs    'MARKER'    'SOSORG'
    x  obj  1  c1  1
    y  obj  1  c1  1
 SOS1qs       'MARKER'    'SOSEND'
RHS
    RHS  c1  4
ENDATA
