/* API-level replay: as C05_load_basis_then_delete_row_stale.c, but the other basis comes from a basis FILE
 * (QSread_and_load_basis keeps the stored solution and the factorization flag of the previous basis).
 * build: gcc -g -I/repo -I/repo/qsopt_ex C05_read_and_load_basis_then_delete_row_stale.c /repo/.libs/libqsopt_ex.a -lgmp -lz -lbz2 -lm -lpthread
 * unfixed tree: "after delete: -4, fresh copy: -20", FAIL, exit 1; fixed tree: both -20, OK, exit 0 */
#include <stdio.h>
#include "QSopt_ex.h"
int main(void)
{
	mpq_QSdata *p, *q; mpq_t m1, zero, big, rhs, v[2], a, b; int ind[2] = {0, 1}, st = 0, st2 = 0, rv; char cstat[2], rstat[1];
	const char *bf = "/tmp/qsv_slack.bas";
	QSexactStart();
	mpq_init(m1); mpq_init(zero); mpq_init(big); mpq_init(rhs); mpq_init(v[0]); mpq_init(v[1]); mpq_init(a); mpq_init(b);
	mpq_set_si(m1, -1, 1); mpq_set_ui(big, 10, 1); mpq_set_ui(rhs, 4, 1); mpq_set_ui(v[0], 1, 1); mpq_set_ui(v[1], 1, 1);
	p = mpq_QScreate_prob("t", QS_MIN);
	mpq_QSnew_col(p, m1, zero, big, "x"); mpq_QSnew_col(p, m1, zero, big, "y");
	mpq_QSadd_row(p, 2, ind, v, &rhs, 'L', "c1");
	cstat[0] = QS_COL_BSTAT_LOWER; cstat[1] = QS_COL_BSTAT_LOWER; rstat[0] = QS_ROW_BSTAT_BASIC;
	mpq_QSload_basis_array(p, cstat, rstat); rv = mpq_QSwrite_basis(p, 0, bf); printf("write slack basis: %d\n", rv);
	mpq_QSopt_primal(p, &st); mpq_QSget_objval(p, &a); printf("solve: status %d value %g\n", st, mpq_get_d(a));
	rv = mpq_QSread_and_load_basis(p, bf); printf("read_and_load_basis: %d\n", rv); remove(bf);
	rv = mpq_QSdelete_row(p, 0); printf("delete_row: %d\n", rv);
	q = mpq_QScopy_prob(p, "copy");
	rv = mpq_QSopt_primal(p, &st); if (!rv) mpq_QSget_objval(p, &a);
	mpq_QSopt_primal(q, &st2); mpq_QSget_objval(q, &b);
	printf("after delete: status %d value %g, fresh copy: status %d value %g\n", st, mpq_get_d(a), st2, mpq_get_d(b));
	if (st != st2 || mpq_cmp(a, b) != 0) { printf("FAIL\n"); return 1; }
	printf("OK\n"); return 0;
}
