/* API-level replay: solve with a ranged row whose logical ends non-basic at upper, QSchange_sense(row, 'L'), re-solve.
 * The stored basis keeps row status 'at upper', which is not a status of a non-ranged row: the incremental re-solve fails
 * with an error ("unknown row basis stat 3") although a fresh copy of the edited problem solves to OPTIMAL.
 * build: gcc -I/repo -I/repo/qsopt_ex C05_chgsense_after_ranged_upper.c /repo/.libs/libqsopt_ex.a -lgmp -lz -lbz2 -lm -lpthread
 * unfixed tree: "re-solve rval=1 ... FAIL", exit 1; fixed tree: both OPTIMAL with the same value, exit 0 */
#include <stdio.h>
#include "QSopt_ex.h"
int main(void)
{
	mpq_QSdata *p, *q; mpq_t one, zero, big, rhs, rng, v1, v2; int ind[1] = {0}, st = 0, st2 = 0, rv, rv2; mpq_t val[1];
	QSexactStart();
	mpq_init(one); mpq_init(zero); mpq_init(big); mpq_init(rhs); mpq_init(rng); mpq_init(val[0]); mpq_init(v1); mpq_init(v2);
	mpq_set_ui(one, 1, 1); mpq_set_ui(big, 10, 1); mpq_set_ui(rhs, 2, 1); mpq_set_ui(rng, 3, 1); mpq_set_ui(val[0], 1, 1);
	p = mpq_QScreate_prob("t", QS_MAX);
	mpq_QSnew_col(p, one, zero, big, "x");
	mpq_QSadd_ranged_row(p, 1, ind, val, &rhs, 'R', &rng, "r");	/* 2 <= x <= 5 */
	rv = mpq_QSopt_dual(p, &st); printf("first solve rval=%d status=%d\n", rv, st);
	rv = mpq_QSchange_sense(p, 0, 'L'); printf("change_sense rval=%d\n", rv);
	q = mpq_QScopy_prob(p, "copy");
	rv = mpq_QSopt_dual(p, &st); if (!rv) mpq_QSget_objval(p, &v1);
	rv2 = mpq_QSopt_dual(q, &st2); if (!rv2) mpq_QSget_objval(q, &v2);
	printf("re-solve rval=%d status=%d ; fresh copy rval=%d status=%d\n", rv, st, rv2, st2);
	if (rv != rv2 || st != st2 || (rv == 0 && mpq_cmp(v1, v2) != 0)) { printf("FAIL: re-solve after the edit differs from a from-scratch solve\n"); return 1; }
	printf("OK\n"); return 0;
}
