/* API-level replay: solve; QSload_basis with a (valid) basis in which a BINDING row is marked basic; QSdelete_row of that
 * row.  ILLlib_delrows keeps the stored solution when the deleted row is basic in the stored basis -- but the stored
 * solution belongs to the basis of the solve, not to the basis that was loaded afterwards: the accessors and the next
 * QSopt_primal serve the old optimum for the smaller problem.
 * build: gcc -g -I/repo -I/repo/qsopt_ex C05_load_basis_then_delete_row_stale.c /repo/.libs/libqsopt_ex.a -lgmp -lz -lbz2 -lm -lpthread
 * unfixed tree: "after delete: -4, fresh copy: -20", FAIL, exit 1; fixed tree: both -20, OK, exit 0 */
#include <stdio.h>
#include "QSopt_ex.h"
int main(void)
{
	mpq_QSdata *p, *q; mpq_t m1, zero, big, rhs, v[2], a, b; int ind[2] = {0, 1}, st = 0, st2 = 0, rv; char cstat[2], rstat[1];
	QSexactStart();
	mpq_init(m1); mpq_init(zero); mpq_init(big); mpq_init(rhs); mpq_init(v[0]); mpq_init(v[1]); mpq_init(a); mpq_init(b);
	mpq_set_si(m1, -1, 1); mpq_set_ui(big, 10, 1); mpq_set_ui(rhs, 4, 1); mpq_set_ui(v[0], 1, 1); mpq_set_ui(v[1], 1, 1);
	p = mpq_QScreate_prob("t", QS_MIN);
	mpq_QSnew_col(p, m1, zero, big, "x"); mpq_QSnew_col(p, m1, zero, big, "y");	/* min -x - y */
	mpq_QSadd_row(p, 2, ind, v, &rhs, 'L', "c1");						/* x + y <= 4 (binding at the optimum -4) */
	mpq_QSopt_primal(p, &st); mpq_QSget_objval(p, &a); printf("solve: status %d value %g\n", st, mpq_get_d(a));
	cstat[0] = QS_COL_BSTAT_LOWER; cstat[1] = QS_COL_BSTAT_LOWER; rstat[0] = QS_ROW_BSTAT_BASIC;	/* the slack basis: valid, not optimal */
	rv = mpq_QSload_basis_array(p, cstat, rstat); printf("load_basis_array: %d\n", rv);
	rv = mpq_QSdelete_row(p, 0); printf("delete_row: %d\n", rv);
	q = mpq_QScopy_prob(p, "copy");
	rv = mpq_QSopt_primal(p, &st); if (!rv) mpq_QSget_objval(p, &a);
	mpq_QSopt_primal(q, &st2); mpq_QSget_objval(q, &b);
	printf("after delete: status %d value %g, fresh copy: status %d value %g\n", st, mpq_get_d(a), st2, mpq_get_d(b));
	if (st != st2 || mpq_cmp(a, b) != 0) { printf("FAIL\n"); return 1; }
	printf("OK\n"); return 0;
}
