NAME t
ROWS
 N obj
 L c1
COLUMNS
    x  obj  -1  c1  1
    yy  obj  -1  c1  1
RHS
    RHS  c1  4
BOUNDS
 UP BND yy 1
 UP BND x