/* API-level replay: a problem read from an MPS file with a special ordered set keeps lp->sos_type after QSfree_prob
 * (allocated in buildSosInfo, neither initialised nor released by ILLlpdata_init / ILLlpdata_free).
 * build: gcc -g -fsanitize=leak -I/repo -I/repo/qsopt_ex C18_sos_type_leak.c /repo/.libs/libqsopt_ex.a -lgmp -lz -lbz2 -lm -lpthread
 * run:   ./a.out C11_mps_sos_section_crash.mps   (unfixed tree: LeakSanitizer reports 1 byte allocated in buildSosInfo; fixed tree: no leak, exit 0) */
#include <stdio.h>
#include "QSopt_ex.h"
int main(int argc, char **argv)
{
	mpq_QSdata *p; QSexactStart();
	p = mpq_QSread_prob(argv[1], "MPS");
	if (!p) { printf("file rejected\n"); return 2; }
	mpq_QSfree_prob(p); QSexactClear(); return 0;
}
