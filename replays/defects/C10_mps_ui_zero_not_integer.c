/* API-level replay: an MPS column declared integer by "UI BND x 0" loses its integer marker (QSget_intflags / written file).
 * build: gcc -I/repo -I/repo/qsopt_ex C10_mps_ui_zero_not_integer.c /repo/.libs/libqsopt_ex.a -lgmp -lz -lbz2 -lm -lpthread ; run: ./a.out C10_mps_ui_zero_not_integer.mps
 * unfixed tree prints x:0 y:1; fixed tree x:1 y:1 */
#include <stdio.h>
#include "QSopt_ex.h"
int main(int argc, char **argv){ mpq_QSdata *p; int f[2] = {-1,-1}; QSexactStart(); p = mpq_QSread_prob(argv[1], "MPS"); if (!p) return 2;
 mpq_QSget_intflags(p, f); printf("integer flags x:%d y:%d\n", f[0], f[1]); return !(f[0] == 1 && f[1] == 1); }
