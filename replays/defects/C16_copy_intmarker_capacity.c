/* API-level replay: QScopy_prob allocates the copy's integer-mark array with exactly nstruct bytes although the copy's
 * other per-column arrays have the capacity structsize (a multiple of 100): the next QSnew_col on the copy writes its
 * mark one byte past the block.
 * build: gcc -g -I/repo -I/repo/qsopt_ex C16_copy_intmarker_capacity.c /repo/.libs/libqsopt_ex.a -lgmp -lz -lbz2 -lm -lpthread
 * run:   valgrind -q --error-exitcode=9 ./a.out   (unfixed tree: "Invalid write of size 1 ... mpq_ILLlib_addcol", exit 9; fixed tree: exit 0) */
#include <stdio.h>
#include "QSopt_ex.h"
int main(void)
{
	const char *fn = "/tmp/qsv_int.lp"; FILE *f = fopen(fn, "w"); mpq_QSdata *p, *q; mpq_t one, zero, big;
	fputs("Minimize\n obj: x + y + z\nSubject To\n c1: x + y + z >= 1\nInteger\n x y\nEnd\n", f); fclose(f);
	QSexactStart(); mpq_init(one); mpq_init(zero); mpq_init(big); mpq_set_ui(one, 1, 1); mpq_set_ui(big, 10, 1);
	p = mpq_QSread_prob(fn, "LP"); remove(fn); if (!p) return 2;
	q = mpq_QScopy_prob(p, "copy"); if (!q) return 2;
	mpq_QSnew_col(q, one, zero, big, "w");
	printf("columns of the copy: %d\n", mpq_QSget_colcount(q));
	mpq_QSfree_prob(q); mpq_QSfree_prob(p); QSexactClear();
	return 0;
}
