/* API-level replay: QSchange_sense(row, 'R') followed by QSchange_range(row, rng) gives the row's logical column the
 * coefficient +1, while a ranged row is stored as  rhs <= a.x <= rhs + range  (logical coefficient -1, as ILLlib_addrow
 * and the readers do it).  The solver then works with  rhs - range <= a.x <= rhs  but QSget_rows / QScopy_prob / the
 * writers describe  rhs <= a.x <= rhs + range : a copy of the problem has a different optimum.
 * build: gcc -g -I/repo -I/repo/qsopt_ex C05_chgsense_to_ranged_wrong_side.c /repo/.libs/libqsopt_ex.a -lgmp -lz -lbz2 -lm -lpthread
 * unfixed tree: original 3, copy 7, FAIL, exit 1; fixed tree: both 7, OK, exit 0 */
#include <stdio.h>
#include "QSopt_ex.h"
int main(void)
{
	mpq_QSdata *p, *q; mpq_t one, zero, big, rhs, rng, v[1], a, b; int ind[1] = {0}, st1 = 0, st2 = 0;
	QSexactStart();
	mpq_init(one); mpq_init(zero); mpq_init(big); mpq_init(rhs); mpq_init(rng); mpq_init(v[0]); mpq_init(a); mpq_init(b);
	mpq_set_ui(one, 1, 1); mpq_set_ui(big, 10, 1); mpq_set_ui(rhs, 3, 1); mpq_set_ui(rng, 4, 1); mpq_set_ui(v[0], 1, 1);
	p = mpq_QScreate_prob("t", QS_MAX);
	mpq_QSnew_col(p, one, zero, big, "x");
	mpq_QSadd_row(p, 1, ind, v, &rhs, 'G', "r");		/* x >= 3 */
	mpq_QSchange_sense(p, 0, 'R'); mpq_QSchange_range(p, 0, rng);	/* 3 <= x <= 7 */
	q = mpq_QScopy_prob(p, "copy");
	mpq_QSopt_dual(p, &st1); mpq_QSget_objval(p, &a);
	mpq_QSopt_dual(q, &st2); mpq_QSget_objval(q, &b);
	printf("original: status %d value %g ; copy: status %d value %g (max x s.t. 3 <= x <= 7, x <= 10: expected 7)\n", st1, mpq_get_d(a), st2, mpq_get_d(b));
	if (mpq_cmp(a, b) != 0 || mpq_cmp_ui(a, 7, 1) != 0) { printf("FAIL\n"); return 1; }
	printf("OK\n"); return 0;
}
