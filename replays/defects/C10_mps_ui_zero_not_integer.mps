NAME t
ROWS
 N obj
 L c1
COLUMNS
    x  obj  -1  c1  1
    y  obj  -1  c1  1
RHS
    RHS  c1  4
BOUNDS
 UI BND x 0
 UI BND y 3
ENDATA
