/* API-level replay: QScreate_prob when its SECOND allocation fails: the clean-up path calls QSfree_prob on a problem
 * whose 'name' member was never initialised -- free() of an arbitrary pointer.
 * The allocation failure is injected by interposing malloc in this program (the library is linked statically); the heap
 * is dirtied first so that the fresh QSdata block does not happen to be zero-filled.
 * build: gcc -g -I/repo -I/repo/qsopt_ex C18_create_prob_alloc_failure.c /repo/.libs/libqsopt_ex.a -lgmp -lz -lbz2 -lm -lpthread -ldl
 * unfixed tree: aborts inside free() ("free(): invalid pointer" / SIGSEGV), non-zero exit; fixed tree: prints "creation failed cleanly", exit 0 */
#define _GNU_SOURCE
#include <stdio.h>
#include <stdlib.h>
#include <string.h>
#include <dlfcn.h>
#include "QSopt_ex.h"
static int countdown = -1;
void *malloc(size_t n)
{
	static void *(*real)(size_t) = 0;
	if (!real) real = (void *(*)(size_t)) dlsym(RTLD_NEXT, "malloc");
	if (countdown > 0 && --countdown == 0) return 0;
	return real(n);
}
int main(void)
{
	mpq_QSdata *p; void *d[64]; int i;
	QSexactStart();
	for (i = 0; i < 64; i++) { d[i] = malloc(64 + 16 * i); memset(d[i], 0xAA, 64 + 16 * i); }
	for (i = 0; i < 64; i++) free(d[i]);
	countdown = 2;	/* the first allocation (the QSdata block) succeeds, the second (the ILLlpdata block) fails */
	p = mpq_QScreate_prob("t", QS_MIN);
	countdown = -1;
	if (p) { printf("creation unexpectedly succeeded\n"); mpq_QSfree_prob(p); return 2; }
	printf("creation failed cleanly\n");
	QSexactClear();
	return 0;
}
