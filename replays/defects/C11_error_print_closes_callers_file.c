/* API-level replay: QSerror_print(f, err) closes the caller's FILE (it wraps f and calls EGioClose, which fcloses any stream
 * other than stdin / stdout / stderr): the caller's own fclose afterwards is a double close (glibc aborts:
 * "free(): double free detected" or similar), and anything it writes in between is lost.
 * build: gcc -g -I/repo -I/repo/qsopt_ex C11_error_print_closes_callers_file.c /repo/.libs/libqsopt_ex.a -lgmp -lz -lbz2 -lm -lpthread
 * run:   valgrind -q --error-exitcode=9 ./a.out   (unfixed tree: invalid reads / invalid free in fclose, exit 9 or abort; fixed tree: exit 0) */
#include <stdio.h>
#include "QSopt_ex.h"
int main(void)
{
	const char *fn = "/tmp/qsv_bad.lp"; FILE *f = fopen(fn, "w"), *out; mpq_QSdata *p; mpq_QSline_reader rd; mpq_QSerror_collector col; mpq_QSerror_memory mem; mpq_QSformat_error e;
	fputs("Minimize\n obj: x\nSubject To\n c1: 3 x + 4 >= 1\nEnd\n", f); fclose(f);
	QSexactStart();
	mem = mpq_QSerror_memory_create(1); col = mpq_QSerror_memory_collector_new(mem);
	f = fopen(fn, "r"); rd = mpq_QSline_reader_new((void *) fgets, f); mpq_QSline_reader_set_error_collector(rd, col);
	p = mpq_QSget_prob(rd, "bad", "LP"); fclose(f); remove(fn);
	if (p) return 2;
	e = mpq_QSerror_memory_get_last_error(mem); if (!e) return 3;
	out = fopen("/tmp/qsv_err.txt", "w");
	mpq_QSerror_print(out, e);
	fprintf(out, "-- end of report\n");	/* the caller goes on using its stream */
	fclose(out); remove("/tmp/qsv_err.txt");
	mpq_QSline_reader_free(rd); mpq_QSerror_collector_free(col); mpq_QSerror_memory_free(mem); QSexactClear();
	printf("done\n");
	return 0;
}
