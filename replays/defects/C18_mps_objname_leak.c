/* API-level replay: an MPS file with an OBJNAME section: the reader keeps the objective row's name in its local state
 * (state.obj, read_mps_objname) and never frees it.
 * build: gcc -g -fsanitize=leak -I/repo -I/repo/qsopt_ex C18_mps_objname_leak.c /repo/.libs/libqsopt_ex.a -lgmp -lz -lbz2 -lm -lpthread
 * unfixed tree: LeakSanitizer reports a block allocated in read_mps_objnamesense; fixed tree: no leak, exit 0 */
#include <stdio.h>
#include "QSopt_ex.h"
int main(void)
{
	const char *fn = "/tmp/qsv_objname.mps"; FILE *f = fopen(fn, "w"); mpq_QSdata *p;
	fputs("NAME t\nOBJNAME\n    cost\nROWS\n N cost\n L c1\nCOLUMNS\n    x  cost  1  c1  1\nRHS\n    RHS  c1  4\nENDATA\n", f); fclose(f);
	QSexactStart();
	p = mpq_QSread_prob(fn, "MPS"); remove(fn);
	if (!p) { printf("file rejected\n"); return 2; }
	mpq_QSfree_prob(p); QSexactClear();
	return 0;
}
