/* API-level replay: ILLlib_addrows decides whether to grow the basis' row-norm array by reading B->rownorms_size, a member
 * that no function ever writes (ILLlp_basis_init does not initialise it; the basis block comes from plain malloc).
 * History: dual solve, change a right-hand side, dual re-solve (the stored basis now carries row norms), QSadd_row.
 * build: gcc -g -I/repo -I/repo/qsopt_ex C17_rownorms_size_uninitialised.c /repo/.libs/libqsopt_ex.a -lgmp -lz -lbz2 -lm -lpthread
 * run:   valgrind -q --error-exitcode=9 ./a.out   (unfixed tree: "Conditional jump or move depends on uninitialised value(s) ... mpq_ILLlib_addrows", exit 9; fixed tree: exit 0) */
#include <stdio.h>
#include "QSopt_ex.h"
int main(void)
{
	mpq_QSdata *p; mpq_t one, zero, big, rhs, v[2]; int ind[2] = {0, 1}, st = 0;
	QSexactStart();
	mpq_init(one); mpq_init(zero); mpq_init(big); mpq_init(rhs); mpq_init(v[0]); mpq_init(v[1]);
	mpq_set_ui(one, 1, 1); mpq_set_ui(big, 10, 1); mpq_set_ui(rhs, 4, 1); mpq_set_ui(v[0], 1, 1); mpq_set_ui(v[1], 2, 1);
	p = mpq_QScreate_prob("t", QS_MAX);
	mpq_QSnew_col(p, one, zero, big, "x"); mpq_QSnew_col(p, one, zero, big, "y");
	mpq_QSadd_row(p, 2, ind, v, &rhs, 'L', "c1");
	mpq_QSopt_dual(p, &st);
	mpq_set_ui(rhs, 6, 1); mpq_QSchange_rhscoef(p, 0, rhs);
	mpq_QSopt_dual(p, &st);
	mpq_set_ui(rhs, 5, 1); mpq_set_ui(v[0], 2, 1); mpq_set_ui(v[1], 1, 1);
	mpq_QSadd_row(p, 2, ind, v, &rhs, 'L', "c2");
	mpq_QSopt_dual(p, &st);
	printf("status %d\n", st);
	mpq_QSfree_prob(p); QSexactClear();
	return st != QS_LP_OPTIMAL;
}
