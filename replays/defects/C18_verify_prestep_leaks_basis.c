/* API-level replay: QSexact_verify with useprestep != 0 obtains a QSbasis from dbl_QSget_basis, overwrites its own
 * 'basis' parameter with it and never frees it -- one leaked basis (cstat, rstat, block) per call.
 * build: gcc -g -fsanitize=address -I/repo -I/repo/qsopt_ex C18_verify_prestep_leaks_basis.c /repo/.libs/libqsopt_ex.a -lgmp -lz -lbz2 -lm -lpthread
 * run:   ASAN_OPTIONS=detect_leaks=1 ./a.out   (unfixed tree: LeakSanitizer reports blocks allocated in dbl_QSget_basis; fixed tree: no leak, exit 0) */
#include <stdio.h>
#include <stdlib.h>
#include "QSopt_ex.h"
int main(void)
{
	mpq_QSdata *p; QSbasis *B; mpq_t one, zero, big, val; int ind[2] = {0, 1}, st = 0, rv; char res = 0; mpq_t v[2];
	QSexactStart(); QSexact_set_precision(128);
	mpq_init(one); mpq_init(zero); mpq_init(big); mpq_init(val); mpq_init(v[0]); mpq_init(v[1]);
	mpq_set_ui(one, 1, 1); mpq_set_ui(big, 10, 1); mpq_set_ui(v[0], 1, 1); mpq_set_ui(v[1], 2, 1);
	p = mpq_QScreate_prob("t", QS_MAX);
	mpq_QSnew_col(p, one, zero, big, "x"); mpq_QSnew_col(p, one, zero, big, "y");
	mpq_QSadd_row(p, 2, ind, v, big, 'L', "c1");
	rv = QSexact_solver(p, 0, 0, 0, DUAL_SIMPLEX, &st); if (rv || st != QS_LP_OPTIMAL) { printf("setup failed\n"); return 2; }
	B = mpq_QSget_basis(p);
	rv = QSexact_verify(p, B, 1, 0, 0, &res, &val, 1);
	printf("verify rv=%d result=%d\n", rv, res);
	mpq_QSfree_basis(B); mpq_QSfree_prob(p);
	mpq_clear(one); mpq_clear(zero); mpq_clear(big); mpq_clear(val); mpq_clear(v[0]); mpq_clear(v[1]);
	QSexactClear();
	return 0;
}
