/* API-level replay: QSadd_col with an out-of-range row index is rejected, but the column NAME has already been
 * registered: the problem is not left untouched -- the name resolves to a column that does not exist, and adding a valid
 * column under that name afterwards fails.
 * build: gcc -g -I/repo -I/repo/qsopt_ex C07_addcol_bad_row_leaves_name.c /repo/.libs/libqsopt_ex.a -lgmp -lz -lbz2 -lm -lpthread
 * unfixed tree: prints FAIL lines, exit 1; fixed tree: OK, exit 0 */
#include <stdio.h>
#include "QSopt_ex.h"
int main(void)
{
	mpq_QSdata *p; mpq_t one, zero, big, v[1]; int ind[1], rv, idx = -7, bad = 0, n0;
	QSexactStart();
	mpq_init(one); mpq_init(zero); mpq_init(big); mpq_init(v[0]); mpq_set_ui(one, 1, 1); mpq_set_ui(big, 10, 1); mpq_set_ui(v[0], 1, 1);
	p = mpq_QScreate_prob("t", QS_MIN);
	mpq_QSnew_col(p, one, zero, big, "x");
	mpq_QSnew_row(p, big, 'L', "c1");
	n0 = mpq_QSget_colcount(p);
	ind[0] = 99;	/* no such row */
	rv = mpq_QSadd_col(p, 1, ind, v, one, zero, big, "z");
	if (rv == 0) { printf("FAIL: column with row index 99 accepted\n"); bad++; }
	if (mpq_QSget_colcount(p) != n0) { printf("FAIL: column count changed by a rejected call\n"); bad++; }
	rv = mpq_QSget_column_index(p, "z", &idx);
	if (rv == 0 && idx >= 0) { printf("FAIL: after the rejected call the name \"z\" resolves to column %d of %d\n", idx, n0); bad++; }
	ind[0] = 0;
	rv = mpq_QSadd_col(p, 1, ind, v, one, zero, big, "z");
	if (rv != 0) { printf("FAIL: a valid column named \"z\" is refused after the rejected call (rv=%d)\n", rv); bad++; }
	printf(bad ? "FAIL\n" : "OK\n");
	return bad != 0;
}
