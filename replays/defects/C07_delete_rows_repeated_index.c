/* API-level replay: QSdelete_rows / QSdelete_cols with the same index listed twice return 0 but reduce the counts by the
 * LENGTH of the list although only one row / column was removed: the problem is inconsistent afterwards.
 * build: gcc -g -I/repo -I/repo/qsopt_ex C07_delete_rows_repeated_index.c /repo/.libs/libqsopt_ex.a -lgmp -lz -lbz2 -lm -lpthread
 * unfixed tree: "rows 3 -> 1" / "cols 3 -> 1", FAIL, exit 1; fixed tree: both calls are rejected and nothing changes, OK, exit 0 */
#include <stdio.h>
#include "QSopt_ex.h"
int main(void)
{
	mpq_QSdata *p; mpq_t one, zero, big; int i, rv, bad = 0, twice[2] = {1, 1}, nr, nc;
	QSexactStart(); mpq_init(one); mpq_init(zero); mpq_init(big); mpq_set_ui(one, 1, 1); mpq_set_ui(big, 10, 1);
	p = mpq_QScreate_prob("t", QS_MIN);
	for (i = 0; i < 3; i++) mpq_QSnew_col(p, one, zero, big, 0);
	for (i = 0; i < 3; i++) mpq_QSnew_row(p, big, 'L', 0);
	rv = mpq_QSdelete_rows(p, 2, twice); nr = mpq_QSget_rowcount(p);
	printf("delete_rows {1,1}: rval %d, rows 3 -> %d\n", rv, nr);
	if (!((rv != 0 && nr == 3) || (rv == 0 && nr == 2))) bad++;
	rv = mpq_QSdelete_cols(p, 2, twice); nc = mpq_QSget_colcount(p);
	printf("delete_cols {1,1}: rval %d, cols 3 -> %d\n", rv, nc);
	if (!((rv != 0 && nc == 3) || (rv == 0 && nc == 2))) bad++;
	printf(bad ? "FAIL\n" : "OK\n"); return bad != 0;
}
