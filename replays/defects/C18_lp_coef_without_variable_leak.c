/* API-level replay: an LP file with a coefficient that is not followed by a variable ("3 x + 4 >= 1") is rejected, and
 * ILLread_constraint_expr returns from that error position without clearing its three temporary numbers.
 * build (GMP's allocations made visible: the slab pool for numbers is compiled out of eg_lpnum.c):
 *   gcc -g -fsanitize=leak -DHAVE_CONFIG_H -DEG_LPNUM_MEMSLAB=0 -I/repo -I/repo/qsopt_ex C18_lp_coef_without_variable_leak.c /repo/qsopt_ex/eg_lpnum.c /repo/.libs/libqsopt_ex.a -lgmp -lz -lbz2 -lm -lpthread
 * unfixed tree: LeakSanitizer reports blocks allocated via __gmpq_init in mpq_ILLread_constraint_expr; fixed tree: no leak, exit 0 */
#include <stdio.h>
#include "QSopt_ex.h"
int main(void)
{
	const char *fn = "/tmp/qsv_coef_novar.lp"; FILE *f = fopen(fn, "w"); mpq_QSdata *p;
	fputs("Minimize\n obj: x\nSubject To\n c1: 3 x + 4 >= 1\nEnd\n", f); fclose(f);
	QSexactStart();
	p = mpq_QSread_prob(fn, "LP"); remove(fn);
	if (p) { printf("file wrongly accepted\n"); mpq_QSfree_prob(p); return 2; }
	QSexactClear();
	return 0;
}
