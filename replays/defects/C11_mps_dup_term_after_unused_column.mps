NAME t
ROWS
 N obj
 N free
 L c1
COLUMNS
    u  free  1
    v  free  1
    w  free  1
    x  obj  1  c1  1
    x  c1  2
RHS
    RHS  c1  4
ENDATA
