/* API-level replay: mpq_EGlpNumSet_mpf(var, 0) initialises a temporary mpf number and returns without clearing it.
 * build (GMP's allocations made visible: the slab pool for numbers is compiled out of eg_lpnum.c):
 *   gcc -g -fsanitize=leak -DHAVE_CONFIG_H -DEG_LPNUM_MEMSLAB=0 -I/repo -I/repo/qsopt_ex C18_set_mpf_zero_leak.c /repo/qsopt_ex/eg_lpnum.c /repo/.libs/libqsopt_ex.a -lgmp -lz -lbz2 -lm -lpthread
 * unfixed tree: LeakSanitizer reports 100 blocks allocated via __gmpf_init in mpq_EGlpNumSet_mpf; fixed tree: no leak, exit 0 */
#include <stdio.h>
#include "QSopt_ex.h"
int main(void)
{
	mpq_t q; mpf_t f; int i;
	QSexactStart(); QSexact_set_precision(128);
	mpq_init(q); mpf_init(f);
	for (i = 0; i < 100; i++) mpq_EGlpNumSet_mpf(q, f);
	mpq_clear(q); mpf_clear(f); QSexactClear();
	return 0;
}
