/* API-level replay: the MPS data-line handlers (mps_read_col_line, add_rhs, add_ranges, add_bounds) return from their
 * error positions without clearing their temporary number.  Four files, each with one bad record, are read (and
 * rejected); afterwards the library is shut down.
 * build (GMP's allocations made visible: the slab pool for numbers is compiled out of eg_lpnum.c):
 *   gcc -g -fsanitize=leak -DHAVE_CONFIG_H -DEG_LPNUM_MEMSLAB=0 -I/repo -I/repo/qsopt_ex C18_mps_error_paths_leak.c /repo/qsopt_ex/eg_lpnum.c /repo/.libs/libqsopt_ex.a -lgmp -lz -lbz2 -lm -lpthread
 * unfixed tree: LeakSanitizer reports blocks allocated via __gmpq_init in the four handlers; fixed tree: no leak, exit 0 */
#include <stdio.h>
#include <string.h>
#include "QSopt_ex.h"
static const char *head = "NAME t\nROWS\n N obj\n L c1\nCOLUMNS\n    x  obj  1  c1  1\n";
static const char *bad[4] = {
	"    y  nosuchrow  1\nENDATA\n",                                  /* COLUMNS: not a row name */
	"RHS\n    RHS  nosuchrow  4\nENDATA\n",                           /* RHS: not a row name */
	"RANGES\n    RNG  nosuchrow  4\nENDATA\n",                        /* RANGES: not a row name */
	"BOUNDS\n UP BND nosuchcol 4\nENDATA\n" };                       /* BOUNDS: not a column name */
int main(void)
{
	int i, bad_accept = 0;
	QSexactStart();
	for (i = 0; i < 4; i++) {
		char fn[64]; FILE *f; mpq_QSdata *p;
		sprintf(fn, "/tmp/qsv_mps_err_%d.mps", i);
		f = fopen(fn, "w"); fputs(head, f); fputs(bad[i], f); fclose(f);
		p = mpq_QSread_prob(fn, "MPS");
		if (p) { bad_accept++; mpq_QSfree_prob(p); }
		remove(fn);
	}
	QSexactClear();
	printf("files wrongly accepted: %d\n", bad_accept);
	return bad_accept != 0;
}
