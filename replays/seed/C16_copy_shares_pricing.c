#include <stdio.h>
#include <qsopt_ex/QSopt_ex.h>
int main(void){
  QSexactStart();
  mpq_QSprob p = mpq_QScreate_prob("t", QS_MIN);
  mpq_t o,l,u,r; mpq_init(o);mpq_init(l);mpq_init(u);mpq_init(r);
  mpq_set_si(o,1,1); mpq_set_si(l,0,1); mpq_set(u, mpq_ILL_MAXDOUBLE);
  mpq_QSnew_col(p,o,l,u,"x"); mpq_QSnew_col(p,o,l,u,"y");
  int ind[2]={0,1}; mpq_t v[2]; mpq_init(v[0]);mpq_init(v[1]); mpq_set_si(v[0],1,1); mpq_set_si(v[1],2,1); mpq_set_si(r,3,1);
  mpq_QSadd_row(p,2,ind,v,&r,'G',"r1");
  int st; int rv = mpq_QSopt_dual(p,&st); printf("rv=%d st=%d\n",rv,st);
  mpq_QSprob q = mpq_QScopy_prob(p,"c"); printf("copied %p\n",(void*)q);
  mpq_QSfree_prob(q); printf("freed copy\n");
  rv = mpq_QSopt_primal(p,&st); printf("rv=%d st=%d\n",rv,st);
  mpq_QSfree_prob(p); printf("freed orig\n");
  QSexactClear(); return 0; }
