/* API-level replay of the finding "QSchange_range has no effect on the problem that is solved":
 * max x  s.t.  1 <= x <= 1 + range (one ranged row), 0 <= x <= 100.  range 2 -> optimum 3; after
 * mpq_QSchange_range(p, 0, 5) the optimum must be 6.  unfixed tree: still 3 (both the exact driver and QSopt_primal).
 * build: gcc -I/repo -I/repo/qsopt_ex C05_change_range_ignored.c /repo/.libs/libqsopt_ex.a -lgmp -lz -lbz2 -lm -lpthread */
#include <stdio.h>
#include "QSopt_ex.h"
static void q(const char *m, void *d) { }
int main(void)
{
	mpq_QSdata *p; mpq_t one, zero, big, r2, r5, val, six; int st, ind = 0, bad = 0;
	QSexactStart(); QSlog_set_handler(q, 0);
	mpq_init(one); mpq_init(zero); mpq_init(big); mpq_init(r2); mpq_init(r5); mpq_init(val); mpq_init(six);
	mpq_set_ui(one, 1, 1); mpq_set_ui(big, 100, 1); mpq_set_ui(r2, 2, 1); mpq_set_ui(r5, 5, 1); mpq_set_ui(six, 6, 1);
	p = mpq_QScreate_prob("t", QS_MAX); mpq_QSnew_col(p, one, zero, big, "x");
	mpq_QSadd_ranged_row(p, 1, &ind, (const mpq_t *) &one, (const mpq_t *) &one, 'R', (const mpq_t *) &r2, "c");
	QSexact_solver(p, 0, 0, 0, DUAL_SIMPLEX, &st); mpq_QSget_objval(p, &val); gmp_printf("range 2: value %Qd (expected 3)\n", val);
	mpq_QSchange_range(p, 0, r5);
	QSexact_solver(p, 0, 0, 0, DUAL_SIMPLEX, &st); mpq_QSget_objval(p, &val); gmp_printf("range 5: value %Qd (expected 6)\n", val);
	bad = mpq_cmp(val, six) != 0;
	printf("%s\n", bad ? "FAIL" : "OK");
	return bad;
}
