#!/bin/sh
# API-level replay of the finding "esolver: a successful -b basis write overwrites the error code of an earlier
# failure": with a loaded basis (-B) and an invalid pricing rule (-p 99) the run fails in QSset_param, but the
# CLEANUP path assigned the result of QSwrite_basis to rval, so the program exited 0 without having solved.
# usage: sh C19_exit_code_masked.sh [/repo]   -- prints the exit status; unfixed tree: 0, fixed tree: 1
R=${1:-/repo}; T=$(mktemp -d)
printf 'Maximize\n obj: x + y\nSubject To\n c1: x + 2 y <= 4\n c2: 3 x + y <= 6\nEnd\n' > $T/p.lp
$R/esolver/esolver -b $T/b.bas $T/p.lp >/dev/null 2>&1
$R/esolver/esolver -B $T/b.bas -p 99 -b $T/o.bas $T/p.lp >/dev/null 2>&1; rc=$?
echo "exit status of the failing run: $rc"; rm -rf $T
[ $rc -ne 0 ]
