/* API-level replay of the finding "QSexact_optimal_test prints qslp->colnames[rowmap[i]]" (exact.c:703/721
 * before the fix): with simplex display on, a candidate solution that violates complementary slackness on
 * a row's logical variable makes the diagnostic read colnames[] (structsize entries) at an internal COLUMN
 * index, far beyond the array when there are more rows than column capacity.
 * build: gcc -g -fsanitize=address -I/repo -I/repo/qsopt_ex C17_optimal_test_colnames_oob.c /repo/.libs/libqsopt_ex.a -lgmp -lz -lbz2 -lm -lpthread
 * unfixed tree: ASan heap-buffer-overflow (or SIGSEGV) inside QSexact_optimal_test; fixed tree: prints "rejected" */
#include <stdio.h>
#include <stdlib.h>
#include "QSopt_ex.h"
#define NROWS 400
static void quiet(const char *m, void *d) { }
int main(void)
{
	mpq_QSdata *p; mpq_t one, zero, big, *x, *y; QSbasis B; int i, r;
	char nm[32];
	QSexactStart(); QSexact_set_precision(128);
	QSlog_set_handler(quiet, 0);
	mpq_init(one); mpq_init(zero); mpq_init(big); mpq_set_ui(one, 1, 1); mpq_set_ui(big, 1000, 1);
	p = mpq_QScreate_prob("t", QS_MIN);
	mpq_QSnew_col(p, one, zero, big, "x");
	for (i = 0; i < NROWS; i++) { int ind = 0; sprintf(nm, "r%d", i); mpq_QSadd_row(p, 1, &ind, &one, &big, 'L', nm); }
	mpq_QSset_param(p, QS_PARAM_SIMPLEX_DISPLAY, 1);
	x = malloc(sizeof(mpq_t) * (1 + NROWS)); y = malloc(sizeof(mpq_t) * NROWS);
	for (i = 0; i < 1 + NROWS; i++) { mpq_init(x[i]); }
	for (i = 0; i < NROWS; i++) { mpq_init(y[i]); }
	/* x = 0, slacks = 1000 (basic), y[NROWS-1] = -1: the last logical has a non-zero dual although it is not tight */
	mpq_set_si(y[NROWS - 1], -1, 1);
	B.nstruct = 1; B.nrows = NROWS; B.cstat = malloc(1); B.rstat = malloc(NROWS);
	B.cstat[0] = QS_COL_BSTAT_LOWER; for (i = 0; i < NROWS; i++) B.rstat[i] = QS_ROW_BSTAT_BASIC;
	r = QSexact_optimal_test(p, x, y, &B);
	printf("%s\n", r ? "accepted" : "rejected");
	return r ? 1 : 0;
}
