/* API-level replay of the finding "nzcount is never decreased by deletions": QSget_nzcount after QSdelete_row / QSdelete_col.
 * build: gcc -I/repo -I/repo/qsopt_ex C06_nzcount_after_delete.c /repo/.libs/libqsopt_ex.a -lgmp -lz -lbz2 -lm -lpthread ; unfixed tree prints 4,5,5; fixed tree 4,2,1 */
#include <stdio.h>
#include "QSopt_ex.h"
int main(void){ mpq_QSdata*p; mpq_t one,zero,big; int i; QSexactStart(); mpq_init(one);mpq_init(zero);mpq_init(big);mpq_set_ui(one,1,1);mpq_set_ui(big,10,1);
 p=mpq_QScreate_prob("t",QS_MAX); mpq_QSnew_col(p,one,zero,big,"x"); mpq_QSnew_col(p,one,zero,big,"y");
 for(i=0;i<2;i++){int ind[2]={0,1}; mpq_t v[2]; mpq_init(v[0]);mpq_init(v[1]);mpq_set_ui(v[0],1,1);mpq_set_ui(v[1],2,1); mpq_QSadd_row(p,2,ind,v,&big,'L',0);}
 printf("nz before: %d\n", mpq_QSget_nzcount(p)); mpq_QSdelete_row(p,0); printf("nz after deleting a row with 2 entries: %d (expected 2)\n", mpq_QSget_nzcount(p));
 mpq_QSdelete_col(p,0); printf("nz after deleting a column with 1 entry: %d (expected 1)\n", mpq_QSget_nzcount(p)); return 0; }
