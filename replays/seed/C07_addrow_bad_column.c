/* API-level replay of the finding "ILLlib_addrow uses its column indices before validating them":
 * mpq_QSadd_row with a column index far beyond the number of columns reads structmap[] out of bounds (the garbage it
 * finds there decides what happens next), and an illegal sense byte is accepted as if it were 'L'.
 * build: gcc -g -fsanitize=address -I/repo -I/repo/qsopt_ex C07_addrow_bad_column.c /repo/.libs/libqsopt_ex.a -lgmp -lz -lbz2 -lm -lpthread
 * unfixed tree: ASan heap-buffer-overflow in mpq_ILLlib_addrow and/or "accepted"; fixed tree: both calls rejected, exit 0 */
#include <stdio.h>
#include "QSopt_ex.h"
static void q(const char *m, void *d) { }
int main(void)
{
	mpq_QSdata *p; mpq_t one, zero, big; int ind = 100000, ok = 0, r1, r2, rows;
	QSexactStart(); QSlog_set_handler(q, 0);
	mpq_init(one); mpq_init(zero); mpq_init(big); mpq_set_ui(one, 1, 1); mpq_set_ui(big, 10, 1);
	p = mpq_QScreate_prob("t", QS_MAX); mpq_QSnew_col(p, one, zero, big, "x");
	r1 = mpq_QSadd_row(p, 1, &ind, (const mpq_t *) &one, (const mpq_t *) &big, 'L', "bad_index");
	ind = 0;
	r2 = mpq_QSadd_row(p, 1, &ind, (const mpq_t *) &one, (const mpq_t *) &big, '?', "bad_sense");
	rows = mpq_QSget_rowcount(p);
	printf("column index 100000: %s; sense '?': %s; rows now %d (expected 0)\n", r1 ? "rejected" : "accepted", r2 ? "rejected" : "accepted", rows);
	return !(r1 && r2 && rows == 0);
}
