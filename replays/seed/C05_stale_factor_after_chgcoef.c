#include <stdio.h>
#include <qsopt_ex/QSopt_ex.h>
static void show(mpq_QSprob p, const char*tag){ int st; mpq_t v; mpq_init(v); int rv=mpq_QSget_status(p,&st); int r2=mpq_QSget_objval(p,&v); gmp_printf("%s: status=%d objval_rv=%d val=%Qd\n",tag,st,r2,v); mpq_clear(v);}
int main(int argc,char**argv){
  int dual = argc>1;
  QSexactStart();
  mpq_QSprob p = mpq_QScreate_prob("t", QS_MIN);
  mpq_t o,l,u,r,c; mpq_init(o);mpq_init(l);mpq_init(u);mpq_init(r);mpq_init(c);
  mpq_set_si(o,1,1); mpq_set_si(l,0,1); mpq_set(u, mpq_ILL_MAXDOUBLE);
  mpq_QSnew_col(p,o,l,u,"x"); mpq_set_si(o,3,1); mpq_QSnew_col(p,o,l,u,"y");
  int ind[2]={0,1}; mpq_t v[2]; mpq_init(v[0]);mpq_init(v[1]); mpq_set_si(v[0],1,1); mpq_set_si(v[1],1,1); mpq_set_si(r,2,1);
  mpq_QSadd_row(p,2,ind,v,&r,'G',"r1");
  int st; int rv = dual? mpq_QSopt_dual(p,&st): mpq_QSopt_primal(p,&st); printf("solve1 rv=%d st=%d\n",rv,st); show(p,"after solve1");
  mpq_set_si(c,2,1); rv = mpq_QSchange_coef(p,0,0,c); printf("chgcoef rv=%d\n",rv); show(p,"after edit");
  rv = dual? mpq_QSopt_dual(p,&st): mpq_QSopt_primal(p,&st); printf("solve2 rv=%d st=%d\n",rv,st); show(p,"after solve2 (expect 1)");
  mpq_t x[2]; mpq_init(x[0]);mpq_init(x[1]); if(!mpq_QSget_x_array(p,x)) gmp_printf("x=%Qd y=%Qd\n",x[0],x[1]);
  mpq_QSfree_prob(p); QSexactClear(); return 0; }
