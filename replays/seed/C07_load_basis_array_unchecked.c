/* API-level replay of the finding "QSload_basis_array stores unchecked status bytes": a basis array in which
 * every variable is marked basic (more basic entries than rows) is accepted (return 0); the next solve then
 * writes beyond lp->baz (nrows entries) in ILLbasis_load.  A malformed QSbasis given to QSload_basis is
 * rejected, but only after the problem's own basis has been freed and overwritten.
 * build: gcc -g -fsanitize=address -I/repo -I/repo/qsopt_ex C07_load_basis_array_unchecked.c /repo/.libs/libqsopt_ex.a -lgmp -lz -lbz2 -lm -lpthread
 * unfixed tree: "accepted a malformed basis" + ASan heap-buffer-overflow in mpq_ILLbasis_load; fixed: "rejected", exit 0 */
#include <stdio.h>
#include <stdlib.h>
#include "QSopt_ex.h"
static void quiet(const char *m, void *d) { }
int main(void)
{
	mpq_QSdata *p; mpq_t one, zero, big; int i, st = 0, rv, bad = 0;
	char cstat[8], rstat[2];
	QSexactStart(); QSlog_set_handler(quiet, 0);
	mpq_init(one); mpq_init(zero); mpq_init(big); mpq_set_ui(one, 1, 1); mpq_set_ui(big, 10, 1);
	p = mpq_QScreate_prob("t", QS_MAX);
	for (i = 0; i < 8; i++) mpq_QSnew_col(p, one, zero, big, 0);
	for (i = 0; i < 2; i++) { int ind[2] = { i, i + 1 }; mpq_t v[2]; mpq_init(v[0]); mpq_init(v[1]); mpq_set_ui(v[0], 1, 1); mpq_set_ui(v[1], 1, 1); mpq_QSadd_row(p, 2, ind, v, &big, 'L', 0); }
	for (i = 0; i < 8; i++) cstat[i] = QS_COL_BSTAT_BASIC;
	for (i = 0; i < 2; i++) rstat[i] = QS_ROW_BSTAT_BASIC;
	rv = mpq_QSload_basis_array(p, cstat, rstat);
	if (rv == 0) { printf("accepted a malformed basis (10 basic entries for 2 rows)\n"); bad = 1; mpq_QSopt_primal(p, &st); }
	else printf("rejected\n");
	mpq_QSfree_prob(p); QSexactClear();
	return bad;
}
