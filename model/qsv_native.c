/* native replay support: named input values from a "name=value" file */
#include <stdio.h>
#include <stdlib.h>
#include <string.h>
int qsv_fail;
static struct { char name[96]; long val; } tab[4096];
static int ntab;
static long seq[65536];
static int nseq, pseq;
void qsv_load(const char *file)
{
	char line[256];
	FILE *f = file ? fopen(file, "r") : 0;
	if (!f) return;
	while (fgets(line, sizeof line, f)) {
		char *eq = strchr(line, '=');
		if (!eq || ntab >= 4096) continue;
		*eq = 0;
		if (!strcmp(line, "@")) { if (nseq < 65536) seq[nseq++] = strtol(eq + 1, 0, 0); continue; }
		strncpy(tab[ntab].name, line, 95);
		tab[ntab].val = strtol(eq + 1, 0, 0);
		ntab++;
	}
	fclose(f);
}
long qsv_in(const char *name)
{
	int i;
	for (i = 0; i < ntab; i++) if (!strcmp(tab[i].name, name)) return tab[i].val;
	return 0;
}
long qsv_next(void) { return pseq < nseq ? seq[pseq++] : 0; }
