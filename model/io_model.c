/* log / report stubs with ghost recording (DESIGN.md section 3, item 3) */
#include <stdarg.h>
#include <stdio.h>
int g_log_calls;		/* ghost: messages handed to QSlog */
int g_direct_writes;	/* ghost: direct writes to stdout/stderr observed by the libc model */
/* NOTE: goto-instrument --dfcc passes its write-set parameter wrongly to variadic functions
 * (observed: the write set arrives as a garbage pointer), so under dfcc the variadic stub must
 * not assign anything; the ghost is only recorded in groups built with QSV_LOG_GHOST (no dfcc). */
#ifdef QSV_LOG_GHOST
#define LOG_GHOST() (g_log_calls = 1)
#else
#define LOG_GHOST() ((void) 0)
#endif
#ifndef QSV_REAL_LOGGING
void QSlog(const char *format, ...) { LOG_GHOST(); }
void QSlogv(const char *format, va_list args) { LOG_GHOST(); }
#endif
#ifndef QSV_REAL_EXCEPT
void ILL_report(const char *msg, const char *fct, const char *file, unsigned int line, int with_source_info) { }
#endif
