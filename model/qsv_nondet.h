/* nondeterminism: CBMC nondet in verification mode, named replay values in native mode */
#ifndef QSV_NONDET_H
#define QSV_NONDET_H
#ifdef QSV_CBMC
int nondet_int(void);
unsigned nondet_uint(void);
char nondet_char(void);
_Bool nondet_bool(void);
double nondet_double(void);
long nondet_long(void);
#define QSV_PAYLOAD_MAX (1 << 29)
static inline int qsv_nondet_payload(void)
{ int v = nondet_int(); __CPROVER_assume(v > -QSV_PAYLOAD_MAX && v < QSV_PAYLOAD_MAX); return v; }
#else
/* native replay: named inputs by name; anonymous nondet_*() calls pop the recorded sequence */
long qsv_in(const char *name);
long qsv_next(void);
static inline int nondet_int(void) { return (int) qsv_next(); }
static inline unsigned nondet_uint(void) { return (unsigned) qsv_next(); }
static inline char nondet_char(void) { return (char) qsv_next(); }
static inline _Bool nondet_bool(void) { return qsv_next() != 0; }
static inline long nondet_long(void) { return qsv_next(); }
static inline double nondet_double(void) { return (double) qsv_next(); }
static inline int qsv_nondet_payload(void) { return (int) qsv_next(); }
#endif
#endif
