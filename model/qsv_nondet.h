/* nondeterminism: CBMC nondet in verification mode, named replay values in native mode */
#ifndef QSV_NONDET_H
#define QSV_NONDET_H
#ifdef QSV_CBMC
int nondet_int(void);
unsigned nondet_uint(void);
char nondet_char(void);
_Bool nondet_bool(void);
double nondet_double(void);
long nondet_long(void);
#define QSV_PAYLOAD_MAX (1 << 29)
static inline int qsv_nondet_payload(void)
{ int v = nondet_int(); __CPROVER_assume(v > -QSV_PAYLOAD_MAX && v < QSV_PAYLOAD_MAX); return v; }
#else
long qsv_in(const char *name);
static inline int qsv_nondet_payload(void) { return (int) qsv_in("@payload"); }
#endif
#endif
