/* the library's global numeric constants (tentative definitions: the real ones from eg_lpnum.c /
 * lpdata_mpq.c are used when those translation units are linked) and their values in the model */
#include <gmp.h>
#include "qsv.h"
mpq_t __zeroLpNum_mpq__, __oneLpNum_mpq__, __MaxLpNum_mpq__, __MinLpNum_mpq__;
mpq_t mpq_ILL_MAXDOUBLE, mpq_ILL_MINDOUBLE;
/* tolerances of the rational instance: lpdata.c:140-145 sets them to 4.5036e9 * epsLpNum, and mpq_epsLpNum is zero */
mpq_t mpq_DFEAS_TOLER, mpq_PFEAS_TOLER;
void qsv_init_globals(void)
{
	qsv_setnum(__zeroLpNum_mpq__, 0);
	qsv_setnum(__oneLpNum_mpq__, 1);
	qsv_setnum(__MaxLpNum_mpq__, QSV_INF);
	qsv_setnum(__MinLpNum_mpq__, -QSV_INF);
	qsv_setnum(mpq_ILL_MAXDOUBLE, QSV_INF);
	qsv_setnum(mpq_ILL_MINDOUBLE, -QSV_INF);
	qsv_setnum(mpq_DFEAS_TOLER, 0);
	qsv_setnum(mpq_PFEAS_TOLER, 0);
}
