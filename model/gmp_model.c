/* Trusted model of the GMP functions qsopt-ex calls (DESIGN.md 2.2).
 *
 * Works over the REAL __mpq_struct/__mpz_struct/__mpf_struct layout of the real <gmp.h>, so
 * that GMP's own header macros and inlines (mpq_sgn, mpq_numref, mpq_neg, mpq_abs, mpz_sgn)
 * stay real.  The mathematical value of an mpz is stored in _mp_size (32-bit, sign = sign of
 * the value); an mpq is the pair (num, den>0), not normalised.
 *
 * Variants (compile-time):
 *   default (OPAQUE)  payload copy/compare only; add/sub/mul/div return nondeterministic payloads
 *   QSV_GMP_EXACT     pair arithmetic in 64 bits, every result ASSERTED to fit in 32 bits
 *   QSV_GMP_SIGNS     OPAQUE, but sums/differences obey the sign laws of an ordered field (see below)
 *   QSV_GMP_TOKENS    init allocates / clear frees a 1-byte heap token in _mp_num._mp_d, so that
 *                     missing ClearVar is a memory leak and use of an uninitialised or cleared
 *                     number is a pointer-check failure
 * The same file compiles natively (replay mode): nondeterministic payloads then read 0.
 */
#include <stdlib.h>
#include <stdio.h>
#include <gmp.h>
#include "qsv_nondet.h"

#ifdef QSV_CBMC_MODEL_ASSERT
#define MODEL_ASSERT(c, msg) __CPROVER_assert(c, msg)
#else
#ifdef QSV_CBMC
#define MODEL_ASSERT(c, msg) __CPROVER_assert(c, msg)
#else
#define MODEL_ASSERT(c, msg) do { if (!(c)) { fprintf(stderr, "GMP-MODEL-ASSERT: %s\n", msg); abort(); } } while (0)
#endif
#endif

#define NUM(q) ((q)->_mp_num._mp_size)
#define DEN(q) ((q)->_mp_den._mp_size)

int qsv_gmp_live;	/* ghost: number of initialised and not yet cleared numbers (TOKENS) */

static void tok_init(__mpz_struct *z)
{
#ifdef QSV_GMP_TOKENS
	z->_mp_d = malloc(1);
#ifdef QSV_CBMC
	__CPROVER_assume(z->_mp_d != 0);
#endif
	qsv_gmp_live++;
#else
	z->_mp_d = 0;
#endif
	z->_mp_alloc = 1;
}
static void tok_clear(__mpz_struct *z)
{
#ifdef QSV_GMP_TOKENS
	MODEL_ASSERT(z->_mp_alloc == 1, "gmp: clear of a number that is not initialised (or cleared twice)");
	free(z->_mp_d);
	z->_mp_d = 0;
	z->_mp_alloc = 0;
	qsv_gmp_live--;
#endif
}
static void tok_use(const __mpz_struct *z)
{
#ifdef QSV_GMP_TOKENS
	MODEL_ASSERT(z->_mp_alloc == 1, "gmp: use of a number that is not initialised");
#endif
}

/* QSV_NARROW (bounded arithmetic groups): every product is taken in 32 bits with both operands
 * ASSERTED to be below 2^15 in magnitude and every result asserted below 2^30, so the SAT encoding
 * carries 32-bit instead of 64-bit multipliers; nothing is assumed, a value outside the range is
 * a failed obligation of the model. */
#ifdef QSV_NARROW
typedef int wide;
#define OPND(v) MODEL_ASSERT((v) > -32768 && (v) < 32768, "gmp model (narrow): multiplication operand below 2^15")
static int fit(wide v, const char *msg)
{
	MODEL_ASSERT(v > -1073741824 && v < 1073741824, "gmp model (narrow): exact result below 2^30");
	return v;
}
#else
typedef long long wide;
#define OPND(v) ((void) 0)
static int fit(wide v, const char *msg)
{
	MODEL_ASSERT(v >= -2147483647LL && v <= 2147483647LL, "gmp model: exact result fits the 32-bit payload");
	return (int) v;
}
#endif
static wide MUL(int a, int b) { OPND(a); OPND(b); return (wide) a * (wide) b; }

/* ------------------------------------------------------------------ mpq */
void __gmpq_init(mpq_ptr a) { NUM(a) = 0; DEN(a) = 1; tok_init(&a->_mp_num); a->_mp_den._mp_alloc = 1; a->_mp_den._mp_d = 0; }
void __gmpq_clear(mpq_ptr a) { tok_clear(&a->_mp_num); }
void __gmpq_set(mpq_ptr a, mpq_srcptr b) { tok_use(&a->_mp_num); tok_use(&b->_mp_num); NUM(a) = NUM(b); DEN(a) = DEN(b); }
void __gmpq_set_ui(mpq_ptr a, unsigned long n, unsigned long d) { tok_use(&a->_mp_num); NUM(a) = (int) n; DEN(a) = (int) d; }
void __gmpq_set_si(mpq_ptr a, long n, unsigned long d) { tok_use(&a->_mp_num); NUM(a) = (int) n; DEN(a) = (int) d; }
void __gmpq_set_z(mpq_ptr a, mpz_srcptr z) { tok_use(&a->_mp_num); NUM(a) = z->_mp_size; DEN(a) = 1; }
void __gmpq_swap(mpq_ptr a, mpq_ptr b) { int n = NUM(a), d = DEN(a); NUM(a) = NUM(b); DEN(a) = DEN(b); NUM(b) = n; DEN(b) = d; }
void __gmpq_canonicalize(mpq_ptr a)
{
	MODEL_ASSERT(DEN(a) != 0, "gmp: mpq_canonicalize with zero denominator (division by zero)");
	if (DEN(a) < 0) { NUM(a) = -NUM(a); DEN(a) = -DEN(a); }
}

#ifdef QSV_GMP_EXACT
int __gmpq_equal(mpq_srcptr a, mpq_srcptr b)
{ if (DEN(a) == DEN(b)) return NUM(a) == NUM(b); return MUL(NUM(a), DEN(b)) == MUL(NUM(b), DEN(a)); }
int __gmpq_cmp(mpq_srcptr a, mpq_srcptr b)
{ wide l, r; if (DEN(a) == DEN(b)) { l = NUM(a); r = NUM(b); } else { l = MUL(NUM(a), DEN(b)); r = MUL(NUM(b), DEN(a)); } return l < r ? -1 : l > r; }
int __gmpq_cmp_ui(mpq_srcptr a, unsigned long n, unsigned long d)
{ wide l, r; if (d == 1 && DEN(a) == 1) { l = NUM(a); r = (wide) n; } else { l = MUL(NUM(a), (int) d); r = MUL((int) n, DEN(a)); } return l < r ? -1 : l > r; }
int __gmpq_cmp_si(mpq_srcptr a, long n, unsigned long d)
{ wide l, r; if (d == 1 && DEN(a) == 1) { l = NUM(a); r = (wide) n; } else { l = MUL(NUM(a), (int) d); r = MUL((int) n, DEN(a)); } return l < r ? -1 : l > r; }
void __gmpq_add(mpq_ptr r, mpq_srcptr a, mpq_srcptr b)
{
	if (DEN(a) == DEN(b)) { int d = DEN(a); NUM(r) = fit((wide) NUM(a) + NUM(b), "add"); DEN(r) = d; return; }
	{ wide n = MUL(NUM(a), DEN(b)) + MUL(NUM(b), DEN(a)), d = MUL(DEN(a), DEN(b));
		NUM(r) = fit(n, "add"); DEN(r) = fit(d, "add"); }
}
void __gmpq_sub(mpq_ptr r, mpq_srcptr a, mpq_srcptr b)
{
	if (DEN(a) == DEN(b)) { int d = DEN(a); NUM(r) = fit((wide) NUM(a) - NUM(b), "sub"); DEN(r) = d; return; }
	{ wide n = MUL(NUM(a), DEN(b)) - MUL(NUM(b), DEN(a)), d = MUL(DEN(a), DEN(b));
		NUM(r) = fit(n, "sub"); DEN(r) = fit(d, "sub"); }
}
void __gmpq_mul(mpq_ptr r, mpq_srcptr a, mpq_srcptr b)
{
	wide n = MUL(NUM(a), NUM(b)), d = (DEN(a) == 1 && DEN(b) == 1) ? 1 : MUL(DEN(a), DEN(b));
	NUM(r) = fit(n, "mul"); DEN(r) = fit(d, "mul");
}
void __gmpq_div(mpq_ptr r, mpq_srcptr a, mpq_srcptr b)
{
	wide n, d;
	MODEL_ASSERT(NUM(b) != 0, "gmp: mpq_div by zero");
	if (DEN(b) == 1 && (NUM(b) == 1 || NUM(b) == -1)) { n = NUM(b) == 1 ? (wide) NUM(a) : -(wide) NUM(a); d = DEN(a); }
	else { n = MUL(NUM(a), DEN(b)); d = MUL(DEN(a), NUM(b)); }
	if (d < 0) { n = -n; d = -d; }
	NUM(r) = fit(n, "div"); DEN(r) = fit(d, "div");
}
void __gmpq_inv(mpq_ptr r, mpq_srcptr a)
{
	int n = NUM(a), d = DEN(a);
	MODEL_ASSERT(n != 0, "gmp: mpq_inv of zero");
	if (n < 0) { NUM(r) = -d; DEN(r) = -n; } else { NUM(r) = d; DEN(r) = n; }
}
#ifdef QSV_GETD_NONDET
/* the conversion to double is LOSSY for numbers of more than 53 bits: modelled as an arbitrary double, so that any
 * verdict that depends on it (instead of on exact comparisons) is visibly arbitrary; diagnostics may print it freely */
double __gmpq_get_d(mpq_srcptr a) { return nondet_double(); }
#else
double __gmpq_get_d(mpq_srcptr a) { return (double) NUM(a) / (double) DEN(a); }
#endif
#else /* OPAQUE: all numbers are integer payloads with den == 1 */
int __gmpq_equal(mpq_srcptr a, mpq_srcptr b) { tok_use(&a->_mp_num); tok_use(&b->_mp_num); return NUM(a) == NUM(b) && DEN(a) == DEN(b); }
int __gmpq_cmp(mpq_srcptr a, mpq_srcptr b) { tok_use(&a->_mp_num); tok_use(&b->_mp_num); return NUM(a) < NUM(b) ? -1 : NUM(a) > NUM(b); }
int __gmpq_cmp_ui(mpq_srcptr a, unsigned long n, unsigned long d) { return NUM(a) < (long) n ? -1 : NUM(a) > (long) n; }
int __gmpq_cmp_si(mpq_srcptr a, long n, unsigned long d) { return NUM(a) < n ? -1 : NUM(a) > n; }
static void opaque(mpq_ptr r) { tok_use(&r->_mp_num); NUM(r) = qsv_nondet_payload(); DEN(r) = 1; }
#ifdef QSV_GMP_SIGNS
/* OPAQUE + SIGNS: payloads are opaque ORDERED values (cmp compares payloads).  A sum / difference is still an
 * arbitrary value, but it obeys the sign laws of an ordered field -- true facts of exact arithmetic that involve
 * no magnitude, hence no overflow question:  sign(a-b) = cmp(a,b);  x+0 = x;  a,b >= 0 => a+b >= 0, and > 0 if
 * one of them is;  symmetrically for <= 0.  Used by the verdict loops that add up same-signed infeasibilities. */
static int sgn_(int v) { return v < 0 ? -1 : v > 0; }
void __gmpq_add(mpq_ptr r, mpq_srcptr a, mpq_srcptr b)
{
	int x = NUM(a), y = NUM(b), v = qsv_nondet_payload();
#ifdef QSV_CBMC
	__CPROVER_assume(!(x == 0) || v == y); __CPROVER_assume(!(y == 0) || v == x);
	__CPROVER_assume(!(x >= 0 && y >= 0) || (v >= 0 && ((x > 0 || y > 0) == (v > 0))));
	__CPROVER_assume(!(x <= 0 && y <= 0) || (v <= 0 && ((x < 0 || y < 0) == (v < 0))));
#else
	v = x + y;
#endif
	NUM(r) = v; DEN(r) = 1;
}
void __gmpq_sub(mpq_ptr r, mpq_srcptr a, mpq_srcptr b)
{
	int x = NUM(a), y = NUM(b), v = qsv_nondet_payload();
#ifdef QSV_CBMC
	__CPROVER_assume(sgn_(v) == (x < y ? -1 : x > y));
	__CPROVER_assume(!(y == 0) || v == x);
#else
	v = x - y;
#endif
	NUM(r) = v; DEN(r) = 1;
}
#else
void __gmpq_add(mpq_ptr r, mpq_srcptr a, mpq_srcptr b) { tok_use(&a->_mp_num); tok_use(&b->_mp_num); opaque(r); }
void __gmpq_sub(mpq_ptr r, mpq_srcptr a, mpq_srcptr b) { tok_use(&a->_mp_num); tok_use(&b->_mp_num); opaque(r); }
#endif
void __gmpq_mul(mpq_ptr r, mpq_srcptr a, mpq_srcptr b) { tok_use(&a->_mp_num); tok_use(&b->_mp_num); opaque(r); }
void __gmpq_div(mpq_ptr r, mpq_srcptr a, mpq_srcptr b)
{ tok_use(&a->_mp_num); tok_use(&b->_mp_num); MODEL_ASSERT(NUM(b) != 0, "gmp: mpq_div by zero"); opaque(r); }
void __gmpq_inv(mpq_ptr r, mpq_srcptr a) { MODEL_ASSERT(NUM(a) != 0, "gmp: mpq_inv of zero"); opaque(r); }
double __gmpq_get_d(mpq_srcptr a) { return (double) NUM(a); }
#endif

void __gmpq_set_d(mpq_ptr a, double d) { tok_use(&a->_mp_num); NUM(a) = qsv_nondet_payload(); DEN(a) = 1; }
void __gmpq_set_f(mpq_ptr a, mpf_srcptr f) { tok_use(&a->_mp_num); NUM(a) = qsv_nondet_payload(); DEN(a) = 1; }
int __gmpq_set_str(mpq_ptr a, const char *s, int base) { NUM(a) = qsv_nondet_payload(); DEN(a) = 1; return qsv_nondet_payload() ? -1 : 0; }
char *__gmpq_get_str(char *s, int base, mpq_srcptr a)
{ if (!s) { s = malloc(2); if (!s) return 0; } s[0] = (char) (64 + (NUM(a) & 31)); s[1] = 0; return s; }	/* one character coding the payload (harnesses check WHICH number was printed) */

/* ------------------------------------------------------------------ mpz (value in _mp_size) */
void __gmpz_init(mpz_ptr z) { z->_mp_size = 0; tok_init(z); }
void __gmpz_clear(mpz_ptr z) { tok_clear(z); }
void __gmpz_set(mpz_ptr z, mpz_srcptr a) { z->_mp_size = a->_mp_size; }
void __gmpz_set_ui(mpz_ptr z, unsigned long v) { z->_mp_size = (int) v; }
void __gmpz_set_si(mpz_ptr z, long v) { z->_mp_size = (int) v; }
void __gmpz_init_set_ui(mpz_ptr z, unsigned long v) { tok_init(z); z->_mp_size = (int) v; }
int __gmpz_cmp(mpz_srcptr a, mpz_srcptr b) { return a->_mp_size < b->_mp_size ? -1 : a->_mp_size > b->_mp_size; }
int __gmpz_cmp_ui(mpz_srcptr a, unsigned long b) { return a->_mp_size < (long) b ? -1 : a->_mp_size > (long) b; }
#ifdef QSV_GMP_EXACT
void __gmpz_mul_ui(mpz_ptr r, mpz_srcptr a, unsigned long b) { r->_mp_size = fit(MUL(a->_mp_size, (int) b), "mpz_mul_ui"); }
void __gmpz_mul(mpz_ptr r, mpz_srcptr a, mpz_srcptr b) { r->_mp_size = fit(MUL(a->_mp_size, b->_mp_size), "mpz_mul"); }
void __gmpz_add(mpz_ptr r, mpz_srcptr a, mpz_srcptr b) { r->_mp_size = fit((wide) a->_mp_size + b->_mp_size, "mpz_add"); }
void __gmpz_sub(mpz_ptr r, mpz_srcptr a, mpz_srcptr b) { r->_mp_size = fit((wide) a->_mp_size - b->_mp_size, "mpz_sub"); }
void __gmpz_add_ui(mpz_ptr r, mpz_srcptr a, unsigned long b) { r->_mp_size = fit((wide) a->_mp_size + (wide) b, "mpz_add_ui"); }
void __gmpz_addmul_ui(mpz_ptr r, mpz_srcptr a, unsigned long b) { r->_mp_size = fit((wide) r->_mp_size + MUL(a->_mp_size, (int) b), "mpz_addmul_ui"); }
void __gmpz_submul_ui(mpz_ptr r, mpz_srcptr a, unsigned long b) { r->_mp_size = fit((wide) r->_mp_size - MUL(a->_mp_size, (int) b), "mpz_submul_ui"); }
void __gmpz_ui_pow_ui(mpz_ptr r, unsigned long b, unsigned long e)
{ long long v = 1; unsigned long i; for (i = 0; i < e; i++) { v *= (long long) b; MODEL_ASSERT(v <= 2147483647LL, "gmp model: mpz_ui_pow_ui fits"); } r->_mp_size = (int) v; }
#else
void __gmpz_mul_ui(mpz_ptr r, mpz_srcptr a, unsigned long b) { r->_mp_size = qsv_nondet_payload(); }
void __gmpz_mul(mpz_ptr r, mpz_srcptr a, mpz_srcptr b) { r->_mp_size = qsv_nondet_payload(); }
void __gmpz_add(mpz_ptr r, mpz_srcptr a, mpz_srcptr b) { r->_mp_size = qsv_nondet_payload(); }
void __gmpz_sub(mpz_ptr r, mpz_srcptr a, mpz_srcptr b) { r->_mp_size = qsv_nondet_payload(); }
void __gmpz_add_ui(mpz_ptr r, mpz_srcptr a, unsigned long b) { r->_mp_size = qsv_nondet_payload(); }
void __gmpz_addmul_ui(mpz_ptr r, mpz_srcptr a, unsigned long b) { r->_mp_size = qsv_nondet_payload(); }
void __gmpz_submul_ui(mpz_ptr r, mpz_srcptr a, unsigned long b) { r->_mp_size = qsv_nondet_payload(); }
void __gmpz_ui_pow_ui(mpz_ptr r, unsigned long b, unsigned long e) { r->_mp_size = qsv_nondet_payload(); }
#endif
size_t __gmpz_sizeinbase(mpz_srcptr a, int base) { return 1; }
double __gmpz_get_d(mpz_srcptr a) { return (double) a->_mp_size; }
void __gmpz_cdiv_q(mpz_ptr q, mpz_srcptr n, mpz_srcptr d) { MODEL_ASSERT(d->_mp_size != 0, "gmp: mpz_cdiv_q by zero"); q->_mp_size = qsv_nondet_payload(); }
void __gmpz_fdiv_q(mpz_ptr q, mpz_srcptr n, mpz_srcptr d) { MODEL_ASSERT(d->_mp_size != 0, "gmp: mpz_fdiv_q by zero"); q->_mp_size = qsv_nondet_payload(); }

/* ------------------------------------------------------------------ mpf (opaque payload in _mp_size) */
/* TOKENS: an initialised mpf number owns a heap token, too (mpf_init allocates its limbs at once in the real library) */
static void ftok_init(mpf_ptr a)
{
#ifdef QSV_GMP_TOKENS
	a->_mp_d = malloc(1);
#ifdef QSV_CBMC
	__CPROVER_assume(a->_mp_d != 0);
#endif
	qsv_gmp_live++;
#else
	a->_mp_d = 0;
#endif
}
void __gmpf_init(mpf_ptr a) { a->_mp_size = 0; a->_mp_prec = 1; a->_mp_exp = 0; ftok_init(a); }
void __gmpf_init2(mpf_ptr a, mp_bitcnt_t p) { a->_mp_size = 0; a->_mp_prec = 1; a->_mp_exp = 0; ftok_init(a); }
void __gmpf_clear(mpf_ptr a)
{
#ifdef QSV_GMP_TOKENS
	free(a->_mp_d); a->_mp_d = 0; qsv_gmp_live--;
#endif
}
int __gmpf_cmp_ui(mpf_srcptr a, unsigned long v) { return a->_mp_size < (int) v ? -1 : a->_mp_size > (int) v; }
void __gmpf_set(mpf_ptr a, mpf_srcptr b) { a->_mp_size = b->_mp_size; }
void __gmpf_set_q(mpf_ptr a, mpq_srcptr b) { a->_mp_size = b->_mp_num._mp_size; }
void __gmpf_set_ui(mpf_ptr a, unsigned long v) { a->_mp_size = (int) v; }
void __gmpf_set_d(mpf_ptr a, double v) { a->_mp_size = qsv_nondet_payload(); }
int __gmpf_cmp(mpf_srcptr a, mpf_srcptr b) { return a->_mp_size < b->_mp_size ? -1 : a->_mp_size > b->_mp_size; }
double __gmpf_get_d(mpf_srcptr a) { return (double) a->_mp_size; }
void __gmpf_set_default_prec(mp_bitcnt_t p) { }
void __gmpf_set_prec(mpf_ptr a, mp_bitcnt_t p) { }
