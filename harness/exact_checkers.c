/* BOUNDED contract checks of the exact certificate checkers of exact.c (C01 / C02).
 *
 * The REAL QSexact_optimal_test / QSexact_infeasible_test run on an arbitrary LP of fixed tiny
 * dimension (NR rows, NS structural columns, integer data of magnitude <= VMAX, arbitrary sparse
 * layout incl. duplicate entries and either ordering of logical/structural columns) with the EXACT
 * GMP model (exact pair arithmetic, overflow asserted absent).  The postcondition is the
 * certificate DEFINITION taken from the property text, evaluated by an independent dense spec
 * (plain long arithmetic over a dense matrix; none of the code's sparse loops):
 *
 *  C01  ret == 1  ==>  for x,s,y,rc,val as left in p->cache:
 *        every row:   sum_j A[i][j] x_j + L_i s_i == b_i          (row holds with its logical)
 *        every col:   l <= value <= u  (structural and logical: the logical's bounds encode the
 *                     row's sense / range)
 *        dz = c - A^T y (all columns):  MIN: dz>0 => value==l, dz<0 => value==u   (MAX: flipped)
 *        val == c.x,  rc == dz on the structurals, and c.x == b.y + sum(bound*dz)
 *        and the (possibly clipped) p_sol / d_sol handed in are what the cache holds
 *  C02  ret == 1  ==>  with r = -A^T y over all columns: r<0 => u finite, r>0 => l finite, and
 *        b.y + sum_j (r_j>0 ? l_j r_j : u_j r_j) > 0;  plus the weak-duality lemma
 *        (spec_farkas && a point within all bounds satisfying all rows) is impossible
 */
#include "qsv.h"
#include "qs_config.h"
#include "QSopt_ex.h"

#ifndef NR
#define NR 2
#endif
#ifndef NS
#define NS 2
#endif
#ifndef VMAX
#define VMAX 2
#endif
#define NC (NR + NS)
#define MS (NS * NR + NR + 2)	/* matsize: NR slots per structural column, one per logical, 2 spare */

int __QS_SB_VERB;
int g_loaded;
int mpq_QSload_basis(mpq_QSdata *p, QSbasis *B)
{	/* contract of QSload_basis as decided in qsb/QSload_basis: it succeeds only for a basis of the problem's size whose status arrays hold status codes */
	int r = nondet_bool(), i;
	g_loaded = 1;
	if (r == 0) {
		ASSUME(B->nstruct == NS && B->nrows == NR);
		for (i = 0; i < NS; i++) ASSUME(B->cstat[i] >= QS_COL_BSTAT_LOWER && B->cstat[i] <= QS_COL_BSTAT_FREE);
		for (i = 0; i < NR; i++) ASSUME(B->rstat[i] >= QS_ROW_BSTAT_LOWER && B->rstat[i] <= QS_ROW_BSTAT_UPPER);
	}
	return r;
}

static mpq_ILLlpdata *O;
static int A[NR][NC], b[NR], c[NC], lo[NC], up[NC];	/* dense copy of the LP for the spec */
static int smap[NS], rmap[NR];

/* anonymous nondeterministic choices: the native replay pops the recorded sequence in order */
/* values are built from 3 nondeterministic bits so that all higher bits are constants for the
 * bit-blaster (a range assumption on a free 32-bit int leaves 32-bit multipliers to the solver) */
static int pick(int lo_, int hi_)
{
	int v = (int) (nondet_uint() & ((hi_ - lo_) < 8 ? 7u : 15u)) + lo_;
	ASSUME(v <= hi_);
	return v;
}
/* bound value: finite small, or the infinity payload */
static int pick_bound(int lower)
{
	int v = pick(-VMAX - 1, VMAX + 1);
	if (v == -VMAX - 1) return lower ? -QSV_INF : -VMAX;
	if (v == VMAX + 1) return lower ? VMAX : QSV_INF;
	return v;
}

static mpq_QSdata *build(void)
{
	mpq_QSdata *p = qsv_alloc(sizeof *p);
	int i, j, k, pos;
	IN_BOOL(logicals_first);
	IN_INT(objsense);
	qsv_init_globals();
	O = qsv_alloc(sizeof *O);
	p->qslp = O; p->lp = qsv_alloc(sizeof *p->lp); p->lp->O = O;
	p->cache = 0; p->basis = 0; p->simplex_display = 0; p->name = 0; p->qstatus = QS_LP_MODIFIED;
	ASSUME(objsense == QS_MIN || objsense == QS_MAX);
	O->objsense = objsense; O->nrows = NR; O->nstruct = NS; O->ncols = NC;
	O->rowsize = NR; O->colsize = NC; O->structsize = NS;
	O->rhs = qsv_numarray(NR); O->obj = qsv_numarray(NC); O->lower = qsv_numarray(NC); O->upper = qsv_numarray(NC);
	O->structmap = qsv_alloc(sizeof(int) * NS); O->rowmap = qsv_alloc(sizeof(int) * NR);
	O->A.matcols = NC; O->A.matrows = NR; O->A.matcolsize = NC; O->A.matsize = MS; O->A.matfree = 2;
	O->A.matcnt = qsv_alloc(sizeof(int) * NC); O->A.matbeg = qsv_alloc(sizeof(int) * NC);
	O->A.matind = qsv_alloc(sizeof(int) * MS); O->A.matval = qsv_numarray(MS);
	/* names exist in every problem built through the API or a reader (diagnostics print them) */
	O->colnames = qsv_alloc(sizeof(char *) * NS); O->rownames = qsv_alloc(sizeof(char *) * NR);
	for (j = 0; j < NS; j++) { O->colnames[j] = qsv_alloc(2); O->colnames[j][0] = 'x'; O->colnames[j][1] = 0; }
	for (i = 0; i < NR; i++) { O->rownames[i] = qsv_alloc(2); O->rownames[i][0] = 'c'; O->rownames[i][1] = 0; }
	for (j = 0; j < NS; j++) { smap[j] = logicals_first ? NR + j : j; O->structmap[j] = smap[j]; }
	for (i = 0; i < NR; i++) { rmap[i] = logicals_first ? i : NS + i; O->rowmap[i] = rmap[i]; }
	for (i = 0; i < NR; i++) for (j = 0; j < NC; j++) A[i][j] = 0;
	pos = 0;
	for (j = 0; j < NS; j++) {
		int col = smap[j], cnt;
#ifdef LAYOUT_DENSE
		cnt = NR;
#else
		cnt = (int) pick(0, NR);
#endif
		O->A.matbeg[col] = pos; O->A.matcnt[col] = cnt;
		for (k = 0; k < NR; k++) {
			if (k < cnt) {
				int r, v;
#ifdef LAYOUT_DENSE
				r = k;
#else
				r = (int) pick(0, NR - 1);
#endif
				v = pick(-VMAX, VMAX);
				O->A.matind[pos] = r; qsv_setnum(O->A.matval[pos], (int) v);
				A[r][col] += v;
			} else { O->A.matind[pos] = -1; qsv_setnum(O->A.matval[pos], 0); }
			pos++;
		}
		c[col] = pick(-VMAX, VMAX); qsv_setnum(O->obj[col], (int) c[col]);
		lo[col] = pick_bound(1); qsv_setnum(O->lower[col], (int) lo[col]);
		up[col] = pick_bound(0); qsv_setnum(O->upper[col], (int) up[col]);
	}
	for (i = 0; i < NR; i++) {
		int col = rmap[i], coef;
		coef = pick(0, 1) ? 1 : -1;	/* logical coefficient +1 / -1 */
		O->A.matbeg[col] = pos; O->A.matcnt[col] = 1; O->A.matind[pos] = i; qsv_setnum(O->A.matval[pos], (int) coef);
		A[i][col] = coef; pos++;
		c[col] = 0; qsv_setnum(O->obj[col], 0);
		lo[col] = pick_bound(1); qsv_setnum(O->lower[col], (int) lo[col]);
		up[col] = pick_bound(0); qsv_setnum(O->upper[col], (int) up[col]);
		b[i] = pick(-VMAX, VMAX); qsv_setnum(O->rhs[i], (int) b[i]);
	}
	O->A.matind[pos] = -1; O->A.matind[pos + 1] = -1;
	return p;
}

static int V(mpq_t q) { ASSERT(DENV(q) == 1, "model: value stays integral in this bounded group"); return NUMV(q); }

#if defined(FN_opttest)
void harness(void)
{
	mpq_QSdata *p = build();
	QSbasis B;
	mpq_t *x = qsv_numarray(NC), *y = qsv_numarray(NR);
	int i, j, ret;
	B.nstruct = NS; B.nrows = NR; B.cstat = qsv_alloc(NS); B.rstat = qsv_alloc(NR);
	for (j = 0; j < NS; j++) { 		B.cstat[j] = (char) ('0' + pick(0, 4));	/* '0'..'3' are the documented codes, '4' is illegal */ }
	for (i = 0; i < NR; i++) { 		B.rstat[i] = (char) ('0' + pick(0, 3)); }
	for (j = 0; j < NC; j++) { 		qsv_setnum(x[j], (int) pick(-2 * VMAX, 2 * VMAX)); }
	for (i = 0; i < NR; i++) { 		qsv_setnum(y[i], (int) pick(-VMAX, VMAX)); }
	ret = QSexact_optimal_test(p, x, y, &B);
	ASSERT(ret == 0 || ret == 1, "C01: the test answers 0 or 1");
	if (ret == 1) {
		int xv[NC], yv[NR], dz[NC], cx = 0, by = 0, bd = 0;
		int sgn = (O->objsense == QS_MIN) ? 1 : -1;
		ASSERT(g_loaded == 1, "C01: the basis was loaded before the verdict");
		ASSERT(p->cache != 0 && p->cache->status == QS_LP_OPTIMAL && p->qstatus == QS_LP_OPTIMAL, "C01: accepted => cache present and marked OPTIMAL");
		ASSERT(p->cache->nstruct == NS && p->cache->nrows == NR, "C01: cache dimensions are the LP's");
		for (j = 0; j < NS; j++) { xv[smap[j]] = V(p->cache->x[j]); ASSERT(V(x[j]) == xv[smap[j]], "C01: handed-back x is the certified x"); }
		for (i = 0; i < NR; i++) { xv[rmap[i]] = V(p->cache->slack[i]); yv[i] = V(p->cache->pi[i]);
			ASSERT(V(y[i]) == yv[i], "C01: handed-back pi is the certified pi");
			ASSERT(V(x[NS + i]) == xv[rmap[i]], "C01: handed-back slack is the certified slack"); }
		for (i = 0; i < NR; i++) {
			int lhs = 0;
			for (j = 0; j < NC; j++) lhs += A[i][j] * xv[j];
			ASSERT(lhs == b[i], "C01: every row holds exactly (with its logical)");
			by += b[i] * yv[i];
		}
		for (j = 0; j < NC; j++) {
			int aty = 0;
			ASSERT(lo[j] <= xv[j] && xv[j] <= up[j], "C01: every column bound holds (logical bounds = row sense/range)");
			for (i = 0; i < NR; i++) aty += A[i][j] * yv[i];
			dz[j] = c[j] - aty;
			if (sgn * dz[j] > 0) { ASSERT(xv[j] == lo[j], "C01: dual sign / complementary slackness at the lower bound"); bd += dz[j] * lo[j]; }
			else if (sgn * dz[j] < 0) { ASSERT(xv[j] == up[j], "C01: dual sign / complementary slackness at the upper bound"); bd += dz[j] * up[j]; }
			cx += c[j] * xv[j];
		}
		for (j = 0; j < NS; j++) ASSERT(V(p->cache->rc[j]) == dz[smap[j]], "C01: cached reduced costs are c - A^T pi");
		ASSERT(V(p->cache->val) == cx, "C01: cached objective value is c.x");
		ASSERT(cx == by + bd, "C01: primal objective equals dual objective");
	} else {
		ASSERT(p->qstatus != QS_LP_OPTIMAL && (p->cache == 0 || p->cache->status != QS_LP_OPTIMAL), "C01: rejected => nothing is marked OPTIMAL by this call");
	}
	COVER_MUST(ret == 1, "accept");
	COVER_MUST(ret == 0, "reject");
	REACH_END();
}
#elif defined(FN_inftest)
void harness(void)
{
	mpq_QSdata *p = build();
	mpq_t *y = qsv_numarray(NR);
	int i, j, ret;
	int yv[NR];
	for (i = 0; i < NR; i++) { 		yv[i] = pick(-VMAX, VMAX); qsv_setnum(y[i], (int) yv[i]); }
	ret = QSexact_infeasible_test(p, y);
	ASSERT(ret == 0 || ret == 1, "C02: the test answers 0 or 1");
	if (ret == 1) {
		int val = 0;
		for (i = 0; i < NR; i++) { ASSERT(V(y[i]) == yv[i], "C02: the multipliers are not modified"); val += b[i] * yv[i]; }
		for (j = 0; j < NC; j++) {
			int r = 0;
			for (i = 0; i < NR; i++) r -= A[i][j] * yv[i];
			if (r < 0) { ASSERT(up[j] != QSV_INF, "C02: multipliers never lean on an infinite upper bound"); val += r * up[j]; }
			if (r > 0) { ASSERT(lo[j] != -QSV_INF, "C02: multipliers never lean on an infinite lower bound"); val += r * lo[j]; }
		}
		ASSERT(val > 0, "C02: the combined inequality is violated by every point within the bounds (Farkas value > 0)");
		ASSERT(p->qstatus == QS_LP_INFEASIBLE, "C02: accepted => status INFEASIBLE");
	} else {
		ASSERT(p->qstatus != QS_LP_INFEASIBLE, "C02: rejected => status not set to INFEASIBLE by this call");
	}
	COVER_MUST(ret == 1, "accept");
	COVER_MUST(ret == 0, "reject");
	REACH_END();
}
#else
#error "select FN_opttest or FN_inftest"
#endif
QSV_MAIN(harness)
