/* C01 / C06: ILLlib_solution (lib.c, REAL), the branch that asks the simplex for its current solution (no cache) -- the
 * producer of every stored solution (QSgrab_cache -> ILLlib_cache_solution -> here): the simplex' vectors over the
 * INTERNAL column order are handed out in EXTERNAL order and in the caller's objective sense:
 *     x[j] = internal x of column structmap[j],   slack[i] = internal x of row i's logical column rowmap[i],
 *     rc[j] = internal reduced cost of structmap[j],  pi, rc and the value with the sign of the caller's sense (negated for MAX).
 * ILLsimplex_solution is a stub delivering arbitrary vectors.  BOUND: 2 structural columns, 1 row (3 internal columns:
 * size-header arrays need compile-time lengths), any column order, any subset of outputs requested. */
#include "lib_contracts.h"
struct qsv_ghost qsv_g;
static int tx[3], trc[3], tpi[1], tval, s_rv;
int mpq_ILLsimplex_solution(mpq_lpinfo *lp, mpq_t *xz, mpq_t *piz, mpq_t *dz, mpq_t *objval)
{	int i; s_rv = nondet_bool();
	for (i = 0; i < 3; i++) { tx[i] = nondet_int(); trc[i] = nondet_int(); if (xz) qsv_setnum(xz[i], tx[i]); if (dz) qsv_setnum(dz[i], trc[i]); }
	tpi[0] = nondet_int(); if (piz) qsv_setnum(piz[0], tpi[0]); tval = nondet_int(); if (objval) qsv_setnum(*objval, tval);
	__CPROVER_assume(tval != (-2147483647 - 1) && tpi[0] != (-2147483647 - 1) && trc[0] != (-2147483647 - 1) && trc[1] != (-2147483647 - 1) && trc[2] != (-2147483647 - 1));
	return s_rv; }
void harness(void)
{
	mpq_lpinfo *lp = qsv_alloc(sizeof *lp); mpq_ILLlpdata *O = qsv_alloc(sizeof *O);
	static int smap[2], rmap[1]; static mpq_t x[2], rc[2], pi[1], sl[1], val;
	int lf = nondet_bool(), rv, sg; IN_BOOL(wv); IN_BOOL(wx); IN_BOOL(wpi); IN_BOOL(wsl); IN_BOOL(wrc); IN_BOOL(maxim);
	qsv_init_globals();
	lp->O = O; O->nstruct = 2; O->nrows = 1; O->ncols = 3; O->structmap = smap; O->rowmap = rmap; O->objsense = maxim ? mpq_ILL_MAX : mpq_ILL_MIN;
	smap[0] = lf ? 1 : 0; smap[1] = lf ? 2 : 1; rmap[0] = lf ? 0 : 2;
	qsv_setnum(val, 0);
	rv = mpq_ILLlib_solution(lp, 0, wv ? &val : (mpq_t *) 0, wx ? &x[0] : (mpq_t *) 0, wpi ? &pi[0] : (mpq_t *) 0, wsl ? &sl[0] : (mpq_t *) 0, wrc ? &rc[0] : (mpq_t *) 0);
	ASSERT((rv == 0) == (s_rv == 0), "C07: the result of the simplex query is passed on");
	sg = maxim ? -1 : 1;
	if (rv == 0) {
		if (wx) ASSERT(NUMV(x[0]) == tx[smap[0]] && NUMV(x[1]) == tx[smap[1]], "C06/C01: x[j] is the simplex value of internal column structmap[j]");
		if (wsl) ASSERT(NUMV(sl[0]) == tx[rmap[0]], "C06/C01: slack[i] is the simplex value of row i's logical column");
		if (wrc) ASSERT(NUMV(rc[0]) == sg * trc[smap[0]] && NUMV(rc[1]) == sg * trc[smap[1]], "C06/C01: rc[j] is the reduced cost of internal column structmap[j], negated for a maximisation problem");
		if (wpi) ASSERT(NUMV(pi[0]) == sg * tpi[0], "C06/C01: pi[i] is the simplex multiplier of row i, negated for a maximisation problem");
		if (wv) ASSERT(NUMV(val) == sg * tval, "C01: the objective value is the simplex value, negated for a maximisation problem");
	}
	REACH_END();
}
QSV_MAIN(harness)
