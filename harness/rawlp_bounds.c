/* C10 "default/implicit bounds follow the documented rules": the MPS BOUNDS table mps_set_bound (static, mps.c, REAL),
 * the bound setters ILLraw_set_{lower,upper,fixed}Bound / set_unbound / set_binaryBound and ILLraw_fill_in_bounds
 * (rawlp.c, REAL) against an independent statement of the rules, for EVERY sequence of at most NREC bound records on NCOL
 * columns (some of them marked integer beforehand):
 *   LO v / UP v / FX v / FR / MI / PL / BV / UI v / LI v   with the usual MPS meaning;
 *   the FIRST definition of a side is kept (a later record that would redefine a side already given is ignored as a whole);
 *   a column without lower bound has lower 0, except that an explicit NEGATIVE upper bound alone makes the lower -infinity;
 *   a column without upper bound has upper +infinity, except that an integer column with no bound at all is binary (upper 1);
 *   BV / UI / LI (when they take effect) mark the column integer.
 * GMP model: payload integers (copy / compare are exact).  BOUND: NCOL = 2, NREC = 3, values in -2..2. */
#include <string.h>
#include <stdarg.h>
#include "qsv.h"
#include "qs_config.h"
#include "rawlp_mpq.h"
#include "read_mps_mpq.h"
#ifndef NCOL
#define NCOL 2
#endif
#ifndef NREC
#define NREC 3
#endif
void __CPROVER_file_local_mps_mpq_c_mps_set_bound(mpq_rawlpdata *lp, mpq_ILLread_mps_state *state, int colind, const char *bndtype, mpq_t bnd);
static int warns;
void mpq_ILLmps_warn(mpq_ILLread_mps_state *st, const char *format, ...) { if (format != 0) warns++; }
static const char *types[9] = { "LO", "UP", "FX", "FR", "MI", "PL", "BV", "UI", "LI" };
static int pick(int lo_, int hi_) { int v = (int) (nondet_uint() & 15u) + lo_; ASSUME(v <= hi_); return v; }
void harness(void)
{
	mpq_rawlpdata *lp = qsv_alloc(sizeof *lp);
	mpq_ILLread_mps_state *st = 0;
	static char intm[NCOL];
	int lset[NCOL], uset[NCOL], lo[NCOL], up[NCOL], isint[NCOL];	/* the reference */
	int i, k, rv;
	mpq_t bnd;
	qsv_init_globals();
	lp->ncols = NCOL; lp->upper = 0; lp->lower = 0; lp->lbind = 0; lp->ubind = 0; lp->intmarker = intm; lp->intsize = NCOL; lp->error_collector = 0;
	for (i = 0; i < NCOL; i++) { intm[i] = (char) nondet_bool(); isint[i] = intm[i]; lset[i] = 0; uset[i] = 0; lo[i] = 0; up[i] = 0; }
	rv = mpq_ILLraw_init_bounds(lp);
	ASSUME(rv == 0);
	mpq_init(bnd);
	{
		int n = pick(0, NREC);
		for (k = 0; k < NREC; k++) if (k < n) {
			int t = pick(0, 8), c = pick(0, NCOL - 1), v = pick(-2, 2);
			qsv_setnum(bnd, v);
			__CPROVER_file_local_mps_mpq_c_mps_set_bound(lp, st, c, types[t], bnd);
			/* reference */
			switch (t) {
			case 0: case 8: if (!lset[c]) { lset[c] = 1; lo[c] = v; if (t == 8) isint[c] = 1; } break;
			case 1: case 7: if (!uset[c]) { uset[c] = 1; up[c] = v; if (t == 7) isint[c] = 1; } break;
			case 2: if (!lset[c] && !uset[c]) { lset[c] = uset[c] = 1; lo[c] = up[c] = v; } break;
			case 3: if (!lset[c] && !uset[c]) { lset[c] = uset[c] = 1; lo[c] = -QSV_INF; up[c] = QSV_INF; } break;
			case 4: if (!lset[c]) { lset[c] = 1; lo[c] = -QSV_INF; } break;
			case 5: if (!uset[c]) { uset[c] = 1; up[c] = QSV_INF; } break;
			default: if (!lset[c] && !uset[c]) { lset[c] = uset[c] = 1; lo[c] = 0; up[c] = 1; isint[c] = 1; } break;
			}
		}
	}
	rv = mpq_ILLraw_fill_in_bounds(lp);
	ASSERT(rv == 0, "C10: the bounds section is completed without error");
	for (i = 0; i < NCOL; i++) {
		int wl = lset[i] ? lo[i] : (uset[i] && up[i] < 0 ? -QSV_INF : 0);
		int wu = uset[i] ? up[i] : (isint[i] && !lset[i] ? 1 : QSV_INF);
		ASSERT(DENV(lp->lower[i]) == 1 && NUMV(lp->lower[i]) == wl, "C10: lower bound = the first one given, else 0, else -infinity when only a negative upper bound was given");
		ASSERT(DENV(lp->upper[i]) == 1 && NUMV(lp->upper[i]) == wu, "C10: upper bound = the first one given, else +infinity, else 1 for an integer column without any bound");
		ASSERT((intm[i] != 0) == (isint[i] != 0), "C10: BV / UI / LI records that take effect mark the column integer, nothing else does");
	}
	COVER_MUST(uset[0] && !lset[0] && up[0] < 0, "negative_upper_only");
	COVER_MUST(isint[1] && !lset[1] && !uset[1], "integer_without_bounds");
	REACH_END();
}
QSV_MAIN(harness)
