/* C18: create / use / free cycles of library objects leave nothing allocated (CBMC --memory-leak-check:
 * every malloc/calloc of the run, including the GMP model's per-number heap token (QSV_GMP_TOKENS: mpq_init
 * allocates one byte, mpq_clear frees it), must have been freed when the harness ends).  The harness itself
 * allocates nothing that it does not free.  REAL code: format.c, lpdata.c, qsopt.c (per section).
 *   FN_errmem   ILLerror_memory_create; ILLadd_error_to_memory x (0..2); ILLerror_memory_free
 *   FN_cache    ILLlp_cache_alloc(2,2); ILLlp_cache_free      (fixed size: size-header arrays)
 *   FN_basis    ILLlp_basis_alloc(n,m); ILLlp_basis_free ; QSget_basis ; QSfree_basis
 *   FN_reload   QSread_and_load_basis on a problem that already owns a basis: the old status arrays are released
 *               before the reader (stub; like the real ILLlib_readbasis it starts from ILLlp_basis_init) runs
 * BOUND: sizes <= 2, strings <= 3 bytes. */
#include <string.h>
#include "qsv.h"
#include "qs_config.h"
#include "format_mpq.h"
#include "lpdata_mpq.h"
#include "qsopt_mpq.h"
#include "qstruct_mpq.h"
#include "lib_mpq.h"
extern int qsv_gmp_live;
int g_reader_saw_owned;
#if defined(FN_reload)
int mpq_ILLlib_readbasis(mpq_lpinfo *lp, mpq_ILLlp_basis *B, const char *fname)
{	/* lib.c:3320: the reader begins with ILLlp_basis_init(B) -- whatever B still owned is lost */
	if (B->cstat != 0 || B->rstat != 0 || B->rownorms != 0 || B->colnorms != 0) g_reader_saw_owned = 1;
	mpq_ILLlp_basis_init(B);
	return nondet_bool() ? 0 : 1;
}
#endif
void harness(void)
{
#if defined(FN_errmem)
	mpq_qserror_memory *mem;
	mpq_qsformat_error e;
	char desc[4], line[4];
	IN_INT(k); IN_BOOL(take_lines); IN_INT(dl); IN_INT(ll); IN_BOOL(has_line);
	int i;
	ASSUME(0 <= k && k <= 2 && 0 <= dl && dl <= 3 && 0 <= ll && ll <= 3);
	for (i = 0; i < 3; i++) { desc[i] = i < dl ? 'd' : 0; line[i] = i < ll ? 'l' : 0; } desc[3] = 0; line[3] = 0;
	mem = mpq_ILLerror_memory_create(take_lines);
	if (mem) {
		e.desc = desc; e.theLine = has_line ? (char *) line : (char *) 0; e.next = 0; e.type = QS_LP_FORMAT_ERROR; e.lineNumber = 1; e.at = 0;
		for (i = 0; i < 2; i++) if (i < k) (void) mpq_ILLadd_error_to_memory(mem, &e);
		mpq_ILLerror_memory_free(mem);
	}
#elif defined(FN_cache)
	mpq_ILLlp_cache C;
	mpq_init(C.val);
	mpq_ILLlp_cache_init(&C);
	if (mpq_ILLlp_cache_alloc(&C, 2, 2) == 0) {
		ASSERT(C.x != 0 && C.rc != 0 && C.pi != 0 && C.slack != 0 && C.nstruct == 2 && C.nrows == 2, "C18/C17: an allocated cache has all four arrays");
		mpq_ILLlp_cache_free(&C);
	}
	ASSERT(C.x == 0 && C.rc == 0 && C.pi == 0 && C.slack == 0, "C18: a freed cache holds no array");
	mpq_clear(C.val);
	ASSERT(qsv_gmp_live == 0, "C18: every number initialised by the cache has been cleared");
#elif defined(FN_basis)
	mpq_ILLlp_basis B;
	IN_INT(ns); IN_INT(nr);
	ASSUME(0 <= ns && ns <= 2 && 0 <= nr && nr <= 2);
	B.rownorms_size = nondet_int(); B.colnorms_size = nondet_int();	/* a basis object comes from plain malloc: arbitrary content */
	mpq_ILLlp_basis_init(&B);
	ASSERT(B.rownorms_size == 0 && B.colnorms_size == 0, "C17/C18: an initialised basis has norm-array capacities 0 (ILLlib_addrows skips growing the row norms when rownorms_size says there is room)");
	if (mpq_ILLlp_basis_alloc(&B, ns, nr) == 0) {
		mpq_QSdata p; QSbasis *qB; int i;
		for (i = 0; i < 2; i++) { if (i < ns) B.cstat[i] = '0'; if (i < nr) B.rstat[i] = '1'; }
		p.basis = &B;
		qB = mpq_QSget_basis(&p);
		if (qB) { ASSERT(qB->nstruct == ns && qB->nrows == nr, "C12: exported basis has the problem's dimensions"); mpq_QSfree_basis(qB); }
		mpq_ILLlp_basis_free(&B);
	}
	ASSERT(B.cstat == 0 && B.rstat == 0 && B.rownorms == 0 && B.colnorms == 0, "C18: a freed basis holds no array");
#elif defined(FN_reload)
	mpq_QSdata p; mpq_lpinfo lp; mpq_ILLlpdata O;
	IN_BOOL(has_basis); int rv;
	p.qslp = &O; p.lp = &lp; lp.O = &O; p.basis = 0; p.cache = 0;
	if (has_basis) {
		p.basis = malloc(sizeof *p.basis); __CPROVER_assume(p.basis != 0);
		mpq_ILLlp_basis_init(p.basis);
		p.basis->cstat = malloc(2); p.basis->rstat = malloc(2); __CPROVER_assume(p.basis->cstat != 0 && p.basis->rstat != 0);
		p.basis->nstruct = 2; p.basis->nrows = 2;
	}
	{ IN_BOOL(has_cache); p.factorok = nondet_bool(); p.qstatus = nondet_int();
	  if (has_cache) { p.cache = malloc(sizeof *p.cache); __CPROVER_assume(p.cache != 0); mpq_init(p.cache->val); mpq_ILLlp_cache_init(p.cache); } }
	rv = mpq_QSread_and_load_basis(&p, "f");
	ASSERT(!g_reader_saw_owned, "C18: the basis handed to the basis reader owns no arrays (the reader re-initialises it)");
	if (rv == 0) ASSERT(p.cache == 0 && p.factorok == 0, "C05: a basis read from a file replaces the stored one: the stored solution and the factorization of the previous basis are dropped");
	if (p.cache) { mpq_ILLlp_cache_free(p.cache); mpq_clear(p.cache->val); free(p.cache); }
	if (p.basis) { mpq_ILLlp_basis_free(p.basis); free(p.basis); }
#else
#error "select a section"
#endif
	REACH_END();
}
QSV_MAIN(harness)
