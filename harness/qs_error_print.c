/* C11 / C17: QSerror_print (qsopt.c, REAL) with the REAL stream wrappers EGioOpenFILE / EGioClose (eg_io.c): the error is
 * printed to a stream that BELONGS TO THE CALLER.  The function may wrap it, but it must not close it (the caller goes on
 * using it and closes it itself: a second fclose is a double free in the C library), and it must release its own wrapper.
 * fclose is a ghost-recording stub; ILLformat_error_print is a stub that writes through the wrapper. */
#include <stdio.h>
#include <stdlib.h>
#include "qsv.h"
#include "qs_config.h"
#include "qsopt_mpq.h"
#include "format_mpq.h"
#include "eg_io.h"
static int closes; static FILE *closed_stream; static int printed; static EGioFile_t *seen_wrapper;
int fclose(FILE *f) { closes++; closed_stream = f; return 0; }
void mpq_ILLformat_error_print(EGioFile_t *out, mpq_qsformat_error *e) { printed++; seen_wrapper = out; }
void harness(void)
{
	static FILE *mine; static mpq_qsformat_error err;
	static char backing[8];
	IN_BOOL(have_err);
	mine = (FILE *) (void *) backing;	/* an open stream of the caller (neither stdin, stdout nor stderr) */
	ASSUME(mine != stdin && mine != stdout && mine != stderr);
	mpq_QSerror_print(mine, have_err ? &err : 0);
	ASSERT(closes == 0, "C11/C17: QSerror_print does not close the caller's stream");
	if (have_err) ASSERT(printed == 1 && seen_wrapper != 0, "C11: the error is printed once, through a wrapper of the caller's stream");
	REACH_END();
}
QSV_MAIN(harness)
