/* C11: the character-level scanners of the LP reader (read_lp.c, REAL) on EVERY line content of at most LLEN bytes
 * (arbitrary non-NUL bytes, with or without a trailing newline -- the last line of a file and a line cut at a backslash
 * have none), cursor anywhere in the line, the rest of the buffer holding arbitrary stale bytes from longer earlier lines.
 *   - the cursor stays inside the current line text, [line, line + strlen(line)]
 *   - a field that was read is NUL-terminated and no longer than the line
 *   - has_colon answers whether the CURRENT line text (up to its terminating NUL or newline) contains a colon
 *   - every pointer / bounds obligation of the scanners (reads past the buffer)
 * The line source is at end of file (wrapping functions reach eof).  sscanf("%s"), strncasecmp are modelled.
 * BOUND: LLEN = 4, buffer capacity 512. */
#include <stdarg.h>
#include <string.h>
#include <stdio.h>
#include "qsv.h"
#include "qs_config.h"
#include "read_lp_mpq.h"
#ifndef LLEN
#define LLEN 4
#endif
static int is_ws(int c) { c &= 0xff; return c == ' ' || c == '\t' || c == '\n' || c == '\r' || c == '\f' || c == '\v'; }
int sscanf(const char *s, const char *fmt, ...)
{	/* model of sscanf(s, "%s", out): skip white space, copy the next run of non-white-space characters */
	va_list ap; char *out; int i = 0, k = 0;
	va_start(ap, fmt); out = va_arg(ap, char *); va_end(ap);
	for (i = 0; i < LLEN + 1; i++) if (is_ws(s[k])) k++; else break;
	if (s[k] == 0) return EOF;
	for (i = 0; i < LLEN + 1; i++) { if (s[k] == 0 || is_ws(s[k])) break; out[i] = s[k++]; }
	out[i] = 0;
	return 1;
}
static int lc(int c) { c &= 0xff; return (c >= 'A' && c <= 'Z') ? c + 32 : c; }
int strncasecmp(const char *a, const char *b, size_t n)
{ size_t i; for (i = 0; i < 12; i++) if (i < n) { int x = lc(a[i]), y = lc(b[i]); if (x != y) return x - y; if (x == 0) return 0; } return 0; }
int mpq_ILLis_lp_name_char(char c, int pos);
static char g_src[LLEN + 2]; static int g_given = 1;
static char *no_more(char *s, int size, void *src)
{	/* fgets-like line source: delivers the prepared line once (WHICH=11 only), then end of file */
	int i;
	if (g_given) return 0;
	g_given = 1;
	for (i = 0; i < LLEN + 2; i++) { if (i < size - 1) s[i] = g_src[i]; if (g_src[i] == 0) break; }
	return s;
}
int mpq_EGlpNumReadStrXc(mpq_t var, const char *str)
{	/* contract of the number scanner as decided in lpnum/anybytes: it consumes between 0 and strlen(str) characters and leaves a rational */
	int i, l = 0, r = nondet_int();
	for (i = 0; i < LLEN + 2; i++) if (str[l] != 0) l++;
	__CPROVER_assume(0 <= r && r <= l);
	qsv_setnum(var, nondet_int());
	return r;
}
void harness(void)
{
	mpq_ILLread_lp_state *st = qsv_alloc(sizeof *st);
	mpq_qsline_reader rd; mpq_t sign;
	IN_INT(n); IN_INT(off); IN_BOOL(newline);
	const int which = WHICH;
	int i, len, rv, colon = 0;
	qsv_init_globals();
	ASSUME(0 <= n && n <= LLEN && 0 <= off);
	for (i = 0; i < LLEN; i++) if (i < n) { char c = nondet_char(); ASSUME(c != 0 && c != '\n'); st->line[i] = c; }
	len = n; if (newline) st->line[len++] = '\n';
	st->line[len] = 0;
	ASSUME(off <= len);
	rd.read_line_fct = no_more; rd.data_src = 0; rd.error_collector = 0;
	st->file = &rd; st->file_name = "f"; st->interactive = 0; st->eof = 0; st->line_num = 1; st->field[0] = 0; st->realline[0] = 0;
	st->p = st->line + off; st->fieldOnFirstCol = 0;
	for (i = 0; i < LLEN + 1; i++) if (i >= off && i < len && st->line[i] == ':') colon = 1;
	mpq_init(sign);
	switch (which) {
	case 0: rv = mpq_ILLread_lp_state_skip_blanks(st, 0); break;
	case 1: rv = mpq_ILLread_lp_state_next_field_on_line(st); break;
	case 2: rv = mpq_ILLread_lp_state_next_var(st); break;
	case 3: rv = mpq_ILLread_lp_state_has_colon(st);
		ASSERT(rv == colon, "C11: has_colon looks at the current line text only (it stops at the terminating NUL, not only at a newline)"); break;
	case 4: rv = mpq_ILLread_lp_state_colon(st); break;
	case 5: rv = mpq_ILLread_lp_state_sign(st, &sign); break;
	case 6: rv = mpq_ILLtest_lp_state_sense(st, nondet_bool()); break;
	case 7: mpq_ILLread_lp_state_prev_field(st); rv = 0; break;
	case 9: {	/* C10: a bound value may be written as an infinity, optionally signed, in any letter case */
		int neg = n >= 1 && st->line[0] == '-', sg = n >= 1 && (st->line[0] == '-' || st->line[0] == '+');
		int isinf = off == 0 && n == 3 + sg && lc(st->line[sg]) == 'i' && lc(st->line[sg + 1]) == 'n' && lc(st->line[sg + 2]) == 'f';
		mpq_init(st->bound_val); qsv_setnum(st->bound_val, 7);
		rv = mpq_ILLread_lp_state_possible_bound_value(st);
		COVER_MUST(isinf && neg, "minus_inf");
		if (isinf) ASSERT(rv == 1 && NUMV(st->bound_val) == (neg ? -QSV_INF : QSV_INF), "C10: 'inf', '+inf' are plus infinity and '-inf' is minus infinity, in any letter case");
		break; }
	case 10: rv = mpq_ILLread_lp_state_value(st, &sign); break;
	case 11: {	/* next_line: the line source delivers the prepared line; comment cut at a backslash */
		for (i = 0; i < LLEN + 2; i++) g_src[i] = st->line[i];
		st->line[0] = 0; st->p = st->line; g_given = 0;
		rv = mpq_ILLread_lp_state_next_line(st);
		COVER_MUST(rv == 0 && st->p > st->line, "line_with_leading_blank");
		if (rv == 0) ASSERT(*st->p != 0 && *st->p != '\n' && *st->p != '\\' && *st->p != ' ' && *st->p != '\t', "C10/C11: a line that is delivered has its cursor on the first character that is not blank");
		break; }
	case 12: {	/* C10: every section keyword the LP reader accepts (ILLread_lp: BOUNDS, BOUND, INTEGER, INT, END) is a reserved word for
			 * the scanner when it stands at the beginning of a line, in any letter case: the constraint and bounds loops stop there */
		static const char *kw[5] = { "BOUNDS", "BOUND", "INTEGER", "INT", "END" };
		int k = nondet_int(), j; ASSUME(0 <= k && k <= 4);
		for (j = 0; j < 8; j++) { char c = kw[k][j]; st->line[j] = (c != 0 && nondet_bool()) ? (char) (c + 32) : c; if (c == 0) break; }
		st->p = st->line;
		rv = mpq_ILLread_lp_state_next_var(st);
		ASSERT(rv == -1, "C10: BOUNDS, BOUND, INTEGER, INT and END at the beginning of a line are section keywords for the scanner, in any letter case");
		st->eof = 1;	/* the cursor assertion below is about arbitrary line contents, not this constructed one */
		break; }
	case 13: {	/* C10: the word FREE (any letter case) ends a bound statement only as a WORD: a column name that merely begins with
			 * these letters (freeze, free_1, Free2) is a name */
		static const char w[4] = "FREE"; static const char follow[7] = { 0, '\n', ' ', 'z', '1', '_', '<' };
		int k = nondet_int(), j, isword; ASSUME(0 <= k && k <= 6);
		for (j = 0; j < 4; j++) st->line[j] = nondet_bool() ? (char) (w[j] + 32) : w[j];
		st->line[4] = follow[k]; st->line[5] = 0; st->p = st->line;
		isword = !(follow[k] == 'z' || follow[k] == '1' || follow[k] == '_');
		rv = mpq_ILLtest_lp_state_next_is(st, "FREE");
		ASSERT((rv != 0) == isword, "C10: FREE is recognised iff it is a whole word (not the beginning of a longer name)");
		ASSERT(st->p == st->line + (rv ? 4 : 0), "C11: the cursor moves past the word only when it was recognised");
		st->eof = 1;
		break; }
	default: rv = mpq_ILLtest_lp_state_next_is(st, "<="); break;
	}
	if (st->eof && which != 12 && which != 13)
		ASSERT(st->p == st->line && st->line[0] == 0, "C11: at end of file the cursor is at the start of an empty line (an error reported there carries a position inside the stored line)");
	if (!st->eof) {
		size_t cur = 0; for (i = 0; i < LLEN + 2; i++) if (st->line[cur] != 0) cur++;
		ASSERT(st->p >= st->line && st->p <= st->line + cur, "C11: the cursor stays inside the current line text");
	}
	if ((which == 1 || which == 2) && rv == 0) { size_t fl = 0; for (i = 0; i < LLEN + 2; i++) if (st->field[fl] != 0 && fl < LLEN + 1) fl++; ASSERT(st->field[fl] == 0 && fl <= LLEN, "C11: a field that was read is NUL-terminated and no longer than the line"); }
	REACH_END();
}
QSV_MAIN(harness)
