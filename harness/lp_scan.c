/* C11: the character-level scanners of the LP reader (read_lp.c, REAL) on EVERY line content of at most LLEN bytes
 * (arbitrary non-NUL bytes, with or without a trailing newline -- the last line of a file and a line cut at a backslash
 * have none), cursor anywhere in the line, the rest of the buffer holding arbitrary stale bytes from longer earlier lines.
 *   - the cursor stays inside the current line text, [line, line + strlen(line)]
 *   - a field that was read is NUL-terminated and no longer than the line
 *   - has_colon answers whether the CURRENT line text (up to its terminating NUL or newline) contains a colon
 *   - every pointer / bounds obligation of the scanners (reads past the buffer)
 * The line source is at end of file (wrapping functions reach eof).  sscanf("%s"), strncasecmp are modelled.
 * BOUND: LLEN = 4, buffer capacity 512. */
#include <stdarg.h>
#include <string.h>
#include <stdio.h>
#include "qsv.h"
#include "qs_config.h"
#include "read_lp_mpq.h"
#ifndef LLEN
#define LLEN 4
#endif
static int is_ws(int c) { c &= 0xff; return c == ' ' || c == '\t' || c == '\n' || c == '\r' || c == '\f' || c == '\v'; }
int sscanf(const char *s, const char *fmt, ...)
{	/* model of sscanf(s, "%s", out): skip white space, copy the next run of non-white-space characters */
	va_list ap; char *out; int i = 0, k = 0;
	va_start(ap, fmt); out = va_arg(ap, char *); va_end(ap);
	for (i = 0; i < LLEN + 1; i++) if (is_ws(s[k])) k++; else break;
	if (s[k] == 0) return EOF;
	for (i = 0; i < LLEN + 1; i++) { if (s[k] == 0 || is_ws(s[k])) break; out[i] = s[k++]; }
	out[i] = 0;
	return 1;
}
static int lc(int c) { c &= 0xff; return (c >= 'A' && c <= 'Z') ? c + 32 : c; }
int strncasecmp(const char *a, const char *b, size_t n)
{ size_t i; for (i = 0; i < 12; i++) if (i < n) { int x = lc(a[i]), y = lc(b[i]); if (x != y) return x - y; if (x == 0) return 0; } return 0; }
int mpq_ILLis_lp_name_char(char c, int pos);
static char *no_more(char *s, int size, void *src) { return 0; }
void harness(void)
{
	mpq_ILLread_lp_state *st = qsv_alloc(sizeof *st);
	mpq_qsline_reader rd; mpq_t sign;
	IN_INT(n); IN_INT(off); IN_BOOL(newline);
	const int which = WHICH;
	int i, len, rv, colon = 0;
	qsv_init_globals();
	ASSUME(0 <= n && n <= LLEN && 0 <= off);
	for (i = 0; i < LLEN; i++) if (i < n) { char c = nondet_char(); ASSUME(c != 0 && c != '\n'); st->line[i] = c; }
	len = n; if (newline) st->line[len++] = '\n';
	st->line[len] = 0;
	ASSUME(off <= len);
	rd.read_line_fct = no_more; rd.data_src = 0; rd.error_collector = 0;
	st->file = &rd; st->file_name = "f"; st->interactive = 0; st->eof = 0; st->line_num = 1; st->field[0] = 0; st->realline[0] = 0;
	st->p = st->line + off; st->fieldOnFirstCol = 0;
	for (i = 0; i < LLEN + 1; i++) if (i >= off && i < len && st->line[i] == ':') colon = 1;
	mpq_init(sign);
	switch (which) {
	case 0: rv = mpq_ILLread_lp_state_skip_blanks(st, 0); break;
	case 1: rv = mpq_ILLread_lp_state_next_field_on_line(st); break;
	case 2: rv = mpq_ILLread_lp_state_next_var(st); break;
	case 3: rv = mpq_ILLread_lp_state_has_colon(st);
		ASSERT(rv == colon, "C11: has_colon looks at the current line text only (it stops at the terminating NUL, not only at a newline)"); break;
	case 4: rv = mpq_ILLread_lp_state_colon(st); break;
	case 5: rv = mpq_ILLread_lp_state_sign(st, &sign); break;
	case 6: rv = mpq_ILLtest_lp_state_sense(st, nondet_bool()); break;
	case 7: mpq_ILLread_lp_state_prev_field(st); rv = 0; break;
	default: rv = mpq_ILLtest_lp_state_next_is(st, "<="); break;
	}
	if (!st->eof) {
		size_t cur = 0; for (i = 0; i < LLEN + 2; i++) if (st->line[cur] != 0) cur++;
		ASSERT(st->p >= st->line && st->p <= st->line + cur, "C11: the cursor stays inside the current line text");
	}
	if ((which == 1 || which == 2) && rv == 0) { size_t fl = 0; for (i = 0; i < LLEN + 2; i++) if (st->field[fl] != 0 && fl < LLEN + 1) fl++; ASSERT(st->field[fl] == 0 && fl <= LLEN, "C11: a field that was read is NUL-terminated and no longer than the line"); }
	REACH_END();
}
QSV_MAIN(harness)
