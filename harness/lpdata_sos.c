/* C18: a problem that carries special-ordered-set information is released completely.  The SOS part of the problem is
 * built by the REAL converter buildSosInfo (static, rawlp.c) from a raw problem with one set of two members -- exactly
 * the allocations the reader makes -- and the problem is then released by the REAL ILLlpdata_free (lpdata.c).
 * Obligation: nothing that was allocated for the problem is left (memory-leak check; GMP model TOKENS), nothing is freed
 * twice.  Concrete set layout (2 columns, both members of set 0), symbolic weights and set type. */
#include <string.h>
#include "qsv.h"
#include "qs_config.h"
#include "rawlp_mpq.h"
#include "lpdata_mpq.h"
extern int qsv_gmp_live;
int __CPROVER_file_local_rawlp_mpq_c_buildSosInfo(mpq_rawlpdata *raw, mpq_ILLlpdata *lp, int *colindex);
void mpq_ILLlp_rows_clear(mpq_ILLlp_rows *r) { }
void mpq_ILLlp_sinfo_free(mpq_ILLlp_sinfo *s) { }
void harness(void)
{
	static mpq_rawlpdata raw; static mpq_ILLlpdata lpd;
	static int mem[2] = { 0, 0 }, scol[2] = { 0, 1 }, colindex[2] = { 0, 1 };
	static mpq_sosptr set[1]; static mpq_t w[2];
	int rv, live0;
	qsv_init_globals();
	live0 = qsv_gmp_live;
	mpq_ILLlpdata_init(&lpd);
	lpd.ncols = 2; lpd.nstruct = 0; lpd.nrows = 0;
	mpq_init(w[0]); mpq_init(w[1]); mpq_set_si(w[0], 1, 1UL); mpq_set_si(w[1], 2, 1UL);
	set[0].first = 0; set[0].nelem = 2; set[0].type = nondet_char();
	raw.ncols = 2; raw.is_sos_member = mem; raw.nsos = 1; raw.sos_set = set; raw.sos_col = scol; raw.sos_weight = w;
	rv = __CPROVER_file_local_rawlp_mpq_c_buildSosInfo(&raw, &lpd, colindex);
	ASSERT(rv == 0 && lpd.sos.matcnt[0] == 2 && lpd.sos_type[0] == set[0].type, "C10: the set and its type are taken over");
	mpq_ILLlpdata_free(&lpd);
	mpq_clear(w[0]); mpq_clear(w[1]);
	ASSERT(qsv_gmp_live == live0, "C18: the weights of the set are cleared with the problem");
	REACH_END();
}
QSV_MAIN(harness)
