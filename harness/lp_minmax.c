/* C10 "keywords are case-insensitive with all documented spellings": the REAL read_minmax (static, lp.c) on CONSTRUCTED
 * first words: MAX, MAXIMUM, MAXIMIZE, MIN, MINIMUM, MINIMIZE in ANY letter case (each letter independently upper or
 * lower), and the non-keywords MAXI, MINIMUMS, MA, X.  A keyword sets the objective sense it spells; anything else is an
 * error (and the word is handed back to the scanner); a keyword that is not at the beginning of its line is an error.
 * strcasecmp is modelled by a plain loop. */
#include <string.h>
#include <stdarg.h>
#include "qsv.h"
#include "qs_config.h"
#include "rawlp_mpq.h"
#include "read_lp_mpq.h"
static int lc(int c) { c &= 0xff; return (c >= 'A' && c <= 'Z') ? c + 32 : c; }
int strcasecmp(const char *a, const char *b) { int i; for (i = 0; i < 10; i++) { int x = lc(a[i]), y = lc(b[i]); if (x != y) return x - y; if (x == 0) return 0; } return 0; }
int __CPROVER_file_local_lp_mpq_c_read_minmax(mpq_ILLread_lp_state *state, mpq_rawlpdata *lp);
static int errors, handed_back;
int mpq_ILLlp_error(mpq_ILLread_lp_state *st, const char *format, ...) { errors++; return 1; }
void mpq_ILLread_lp_state_prev_field(mpq_ILLread_lp_state *st) { handed_back++; }
static const char *words[10] = { "MAX", "MAXIMUM", "MAXIMIZE", "MIN", "MINIMUM", "MINIMIZE", "MAXI", "MINIMUMS", "MA", "X" };
void harness(void)
{
	static mpq_rawlpdata raw; mpq_rawlpdata *lp = &raw;
	mpq_ILLread_lp_state *st = qsv_alloc(sizeof *st);
	int k = nondet_int(), i, rv; IN_BOOL(firstcol);
	qsv_init_globals();
	ASSUME(0 <= k && k <= 9);
	for (i = 0; i < 9; i++) { char c = words[k][i]; st->field[i] = (c != 0 && nondet_bool()) ? (char) (c + 32) : c; if (c == 0) break; }
	st->fieldOnFirstCol = firstcol; lp->objsense = 77;
	rv = __CPROVER_file_local_lp_mpq_c_read_minmax(st, lp);
	if (k <= 2) ASSERT(lp->objsense == mpq_ILL_MAX, "C10: MAX / MAXIMUM / MAXIMIZE in any letter case mean maximise");
	else if (k <= 5) ASSERT(lp->objsense == mpq_ILL_MIN, "C10: MIN / MINIMUM / MINIMIZE in any letter case mean minimise");
	else ASSERT(rv != 0 && lp->objsense == 77 && handed_back == 1, "C10/C11: any other word is not an objective sense: error, nothing set, the word is handed back");
	ASSERT((rv == 0) == (k <= 5 && firstcol), "C10/C11: accepted iff the word is one of the six spellings and stands at the beginning of its line");
	REACH_END();
}
QSV_MAIN(harness)
