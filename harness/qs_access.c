/* C05 / C01: the solution accessors of qsopt.c (REAL, loop-free): between an edit and the next solve every accessor
 * fails -- an edit leaves cache == NULL and qstatus == QS_LP_MODIFIED (C05/I1, proved per edit wrapper), and here:
 *   cache == NULL            ==> QSget_solution, QSget_x_array, QSget_slack_array, QSget_rc_array, QSget_pi_array,
 *                                QSget_named_x / _rc / _pi / _slack fail and the library is not asked for anything
 *   qstatus == QS_LP_MODIFIED ==> QSget_objval fails
 *   with a cache the array accessors pass exactly p->cache to the library (decided in lib/solution), and the named
 *   accessors return the cached entry of the index the name resolves to (unknown name: failure, output untouched)
 * Library callees are ghost-recording stubs. */
#include "qsopt_contracts.h"
struct qsv_ghost qsv_g;
int g_old_objsense, g_lib_rv, g_lib_called, g_cache_freed, g_basis_freed, g_basis_ok, g_cache_ok, g_factorok_out, g_factorok_in, g_sinfo_freed;
static void *g_cache_arg; static int g_name_idx;
#define STUB() do { g_lib_called++; g_cache_arg = C; return nondet_int(); } while (0)
int mpq_ILLlib_solution(mpq_lpinfo *lp, mpq_ILLlp_cache *C, mpq_t *val, mpq_t *x, mpq_t *pi, mpq_t *slack, mpq_t *rc) { STUB(); }
int mpq_ILLlib_get_x(mpq_lpinfo *lp, mpq_ILLlp_cache *C, mpq_t *x) { STUB(); }
int mpq_ILLlib_get_slack(mpq_lpinfo *lp, mpq_ILLlp_cache *C, mpq_t *s) { STUB(); }
int mpq_ILLlib_objval(mpq_lpinfo *lp, mpq_ILLlp_cache *C, mpq_t *v) { STUB(); }
int mpq_ILLlib_colindex(mpq_lpinfo *lp, const char *name, int *idx) { *idx = g_name_idx; return 0; }
int mpq_ILLlib_rowindex(mpq_lpinfo *lp, const char *name, int *idx) { *idx = g_name_idx; return 0; }
void harness(void)
{
	mpq_QSdata *p = qsv_alloc(sizeof *p);
	IN_BOOL(has_cache); IN_INT(qstatus); IN_INT(which); IN_INT(idx);
	mpq_t out, *arr = (mpq_t *) qsv_alloc(sizeof(mpq_t) * 2);
	int rv, old = 77;
	p->qslp = qsv_alloc(sizeof *p->qslp); p->lp = qsv_alloc(sizeof *p->lp); p->lp->O = p->qslp; p->qstatus = qstatus;
	p->cache = has_cache ? qsv_alloc(sizeof *p->cache) : 0;
	ASSUME(0 <= which && which <= 9 && -1 <= idx && idx <= 1);
	g_name_idx = idx;
	if (p->cache) { p->cache->x = qsv_nums(2); p->cache->rc = qsv_nums(2); p->cache->pi = qsv_nums(2); p->cache->slack = qsv_nums(2); }
	qsv_setnum(out, old);
	switch (which) {
	case 0: rv = mpq_QSget_solution(p, &out, arr, 0, 0, 0); break;
	case 1: rv = mpq_QSget_x_array(p, arr); break;
	case 2: rv = mpq_QSget_slack_array(p, arr); break;
	case 3: rv = mpq_QSget_rc_array(p, arr); break;
	case 4: rv = mpq_QSget_pi_array(p, arr); break;
	case 5: rv = mpq_QSget_named_x(p, "n", &out); break;
	case 6: rv = mpq_QSget_named_rc(p, "n", &out); break;
	case 7: rv = mpq_QSget_named_pi(p, "n", &out); break;
	case 8: rv = mpq_QSget_named_slack(p, "n", &out); break;
	default: rv = mpq_QSget_objval(p, &out); break;
	}
	if (which <= 8 && !has_cache) ASSERT(rv != 0 && g_lib_called == 0 && NUMV(out) == old, "C05: without a cached solution every solution accessor fails, asks the library nothing and leaves its output untouched");
	if (which == 9 && qstatus == QS_LP_MODIFIED) ASSERT(rv != 0 && g_lib_called == 0, "C05: the objective value of a modified problem is not served");
	if (which <= 4 && has_cache) ASSERT(g_lib_called == 1 && g_cache_arg == p->cache, "C01: the array accessors serve the problem's cached solution (no other source)");
	if (which >= 5 && which <= 8 && has_cache) {
		if (idx < 0) ASSERT(rv != 0 && NUMV(out) == old, "C07: an unknown name is rejected and the output is untouched");
		else { mpq_t *src = which == 5 ? p->cache->x : which == 6 ? p->cache->rc : which == 7 ? p->cache->pi : p->cache->slack;
			ASSERT(rv == 0 && NUMV(out) == NUMV(src[idx]), "C01: a named accessor returns the cached entry of the index the name resolves to"); }
	}
	REACH_END();
}
QSV_MAIN(harness)
