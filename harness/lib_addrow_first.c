/* C06 / C07 / C17: mpq_ILLlib_addrow (lib.c, REAL, with the real static matrix_addrow / matrix_addcol) adding the VERY FIRST
 * row of a problem that has columns but no rows yet (the state after QScreate_prob + QSnew_col: rowsize == 0 and every
 * per-row array -- rhs, sense, rowmap, rangeval, rownames -- is still NULL), so the call has to create every per-row array.
 * Start state: NS = 2 empty structural columns (each owns its marker slot), column arrays full (they grow as well).
 * The new row: cnt <= 1 entries with an arbitrary column index (possibly invalid), arbitrary sense byte, rhs, range, name
 * (the name table is a stub: the name may collide).
 *   valid := the column index names a structural column, sense in {L,G,E,R}, name new
 *   valid  ==> 0, and the problem has exactly this row: rhs, sense, range (a ranged row REPORTS ITS RANGE; range 0 or no
 *              range array otherwise), name, logical column (singleton, coefficient and bounds by sense), the coefficient given
 *   !valid ==> non-zero, still no row, no coefficient
 * BOUND: the growth steps EXTRA_ROWS / EXTRA_COLS are 2 instead of 100; the realloc branch of the matrix is cut. */
#include "lib_contracts.h"
struct qsv_ghost qsv_g;
int g_name_collides, g_registered;
void mpq_ILLlp_sinfo_free(mpq_ILLlp_sinfo *s) { }
void mpq_ILLlp_rows_clear(mpq_ILLlp_rows *r) { }
int mpq_ILLlib_findName(mpq_ILLlpdata *qslp, int forRow, const char *name, int id, char buf[ILL_namebufsize]) { buf[0] = 'n'; buf[1] = 0; return g_name_collides; }
int ILLsymboltab_register(ILLsymboltab *h, const char *s, int itemindex, int *the_index, int *existed) { *the_index = itemindex; *existed = g_name_collides; if (!g_name_collides) g_registered++; return 0; }
char *ILLutil_str(const char *s) { char *r = malloc(2); if (r) { r[0] = s[0]; r[1] = 0; } return r; }
#define NS 2
#define MAXSZ 12
void harness(void)
{
	mpq_ILLlpdata *O; mpq_ILLmatrix *A; mpq_lpinfo *lp;
	int i, j, rv, cnt, ind[1], vv, valid = 1; const int colsize = NS;	/* compile-time capacity: the column arrays are full too */
	mpq_t val[1], rhs, range; IN_CHAR(sense); IN_INT(rhsv); IN_INT(rngv);
	qsv_init_globals();
	O = qsv_alloc(sizeof *O); A = &O->A;
	O->nrows = 0; O->nstruct = NS; O->ncols = NS; O->rowsize = 0; O->colsize = colsize; O->structsize = NS; O->rA = 0; O->sinfo = 0; O->nzcount = 0;
	O->structmap = qsv_alloc(sizeof(int) * NS); O->rowmap = 0; O->rhs = 0; O->sense = 0; O->rownames = 0; O->rangeval = 0;
	O->obj = qsv_numarray(colsize); O->lower = qsv_numarray(colsize); O->upper = qsv_numarray(colsize);
	A->matrows = 0; A->matcols = NS; A->matcolsize = colsize;
	A->matbeg = qsv_alloc(sizeof(int) * colsize); A->matcnt = qsv_alloc(sizeof(int) * colsize); A->matind = qsv_alloc(sizeof(int) * MAXSZ); A->matval = qsv_numarray(MAXSZ);
	for (i = 0; i < MAXSZ; i++) { A->matind[i] = -1; qsv_setnum(A->matval[i], 0); }
	for (j = 0; j < NS; j++) { O->structmap[j] = j; A->matbeg[j] = j; A->matcnt[j] = 0; A->matind[j] = 1; qsv_setnum(O->obj[j], j + 10); qsv_setnum(O->lower[j], 0); qsv_setnum(O->upper[j], 50 + j); }
	A->matsize = MAXSZ; A->matfree = MAXSZ - NS;
	lp = qsv_mk_lpinfo(O);
	cnt = nondet_bool() ? 1 : 0; ind[0] = (int) (nondet_uint() & 3u) - 1; vv = 1 + (int) (nondet_uint() & 3u); qsv_setnum(val[0], vv);
	ASSUME(0 <= rngv && rngv < 1000 && -1000 < rhsv && rhsv < 1000);
	qsv_setnum(rhs, rhsv); qsv_setnum(range, rngv);
	g_name_collides = nondet_bool();
	if (cnt == 1 && (ind[0] < 0 || ind[0] >= NS)) valid = 0;
	if (!(sense == 'L' || sense == 'G' || sense == 'E' || sense == 'R') || g_name_collides) valid = 0;
	rv = mpq_ILLlib_addrow(lp, 0, cnt, ind, (const mpq_t *) val, rhs, sense, range, "n");
	ASSERT((rv == 0) == valid, "C07: the first row is accepted iff its column index names a structural column, the sense is one of L, G, E, R and the name is new");
	if (rv != 0) {
		ASSERT(O->nrows == 0 && O->ncols == NS && O->nstruct == NS && O->nzcount == 0 && g_registered == 0 && A->matcols == NS && A->matrows == 0 && A->matcnt[0] == 0 && A->matcnt[1] == 0,
			"C07: a rejected first row leaves the problem without rows and coefficients");
	} else {
		int lc;
		ASSERT(O->nrows == 1 && O->ncols == NS + 1 && O->nstruct == NS && g_registered == 1 && A->matcols == NS + 1 && A->matrows == 1 && O->rowsize >= 1 && O->colsize >= NS + 1, "C06: one row and its logical column were added");
		ASSERT(O->rhs != 0 && O->sense != 0 && O->rowmap != 0 && O->rownames != 0 && O->rownames[0] != 0, "C06: every per-row array exists after the first row");
		ASSERT(NUMV(O->rhs[0]) == rhsv && O->sense[0] == sense, "C06: the first row reports the rhs and sense given");
		ASSERT(sense != 'R' || (O->rangeval != 0 && NUMV(O->rangeval[0]) == rngv), "C06: a ranged row added as the first row of a problem reports its range");
		ASSERT(sense == 'R' || O->rangeval == 0 || NUMV(O->rangeval[0]) == 0, "C06: a row that is not ranged reports range 0");
		lc = O->rowmap[0];
		ASSERT(lc == NS && A->matcnt[lc] == 1 && A->matind[A->matbeg[lc]] == 0 && NUMV(A->matval[A->matbeg[lc]]) == ((sense == 'G' || sense == 'R') ? -1 : 1) && NUMV(O->lower[lc]) == 0 && NUMV(O->upper[lc]) == (sense == 'E' ? 0 : sense == 'R' ? rngv : QSV_INF) && NUMV(O->obj[lc]) == 0,
			"C06: the first row's logical column is a singleton with the coefficient and bounds of its sense");
		for (j = 0; j < NS; j++) {
			int given = (cnt == 1 && ind[0] == j);
			ASSERT(A->matcnt[j] == given && (!given || (A->matind[A->matbeg[j]] == 0 && NUMV(A->matval[A->matbeg[j]]) == vv)), "C06: the first row has exactly the coefficient given");
			ASSERT(O->structmap[j] == j && NUMV(O->obj[j]) == j + 10 && NUMV(O->lower[j]) == 0 && NUMV(O->upper[j]) == 50 + j, "C06: structural columns keep their place, objective and bounds");
		}
		ASSERT(O->nzcount == cnt + 1, "C06 view: the nonzero count equals the number of stored coefficients");
	}
	COVER_MUST(rv == 0 && cnt == 1 && sense == 'R', "added_ranged");
	COVER_MUST(rv == 0 && sense == 'L' && O->colsize > NS, "added_grow_cols");
	REACH_END();
}
QSV_MAIN(harness)
