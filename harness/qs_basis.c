/* basis entry points of qsopt.c (C14 frame of QSwrite_basis, C07 rejection of malformed bases,
 * C12 export/import copies).  One section per function (-DFN_<name>).  Real code: qsopt_mpq.c,
 * lpdata_mpq.c (ILLlp_basis_init/free), allocrus.c.  Stubs: ILLlib_writebasis (nondeterministic
 * result, records which basis it was given and reads it, so a dangling basis is a pointer error). */
#include "qsbasis_contracts.h"
struct qsv_ghost qsv_g;
int g_old_objsense;
int g_lib_rv, g_lib_called, g_cache_freed, g_basis_freed, g_basis_ok, g_cache_ok, g_factorok_out, g_factorok_in, g_sinfo_freed;
int g_wb_called, g_wb_rv;
void *g_wb_basis;
#ifndef NB
#define NB QSV_CAP
#endif

int mpq_ILLlib_writebasis(mpq_lpinfo *lp, mpq_ILLlp_basis *B, const char *fname)
{
	g_wb_called = 1; g_wb_basis = B;
#ifdef QSV_CBMC
	g_wb_rv = nondet_int();
#else
	g_wb_rv = (int) qsv_in("wb_rv");
#endif
	return g_wb_rv;
}

/* an arbitrary internal basis of the given size (status arrays exist iff size > 0 or by choice) */
static mpq_ILLlp_basis *mk_illbasis(int nstruct, int nrows)
{
	mpq_ILLlp_basis *B = qsv_alloc(sizeof *B);
	B->nstruct = nstruct; B->nrows = nrows;
	B->cstat = qsv_alloc((size_t) nstruct); B->rstat = qsv_alloc((size_t) nrows);
	{ IN_BOOL(has_rownorms); B->rownorms = has_rownorms ? qsv_numarray(1) : 0; B->rownorms_size = has_rownorms; }
	{ IN_BOOL(has_colnorms); B->colnorms = has_colnorms ? qsv_numarray(1) : 0; B->colnorms_size = has_colnorms; }
	return B;
}
static QSbasis *mk_qsbasis(int nstruct, int nrows)
{
	QSbasis *B = qsv_alloc(sizeof *B);
	B->nstruct = nstruct; B->nrows = nrows;
	B->cstat = qsv_alloc((size_t) nstruct); B->rstat = qsv_alloc((size_t) nrows);
	return B;
}
static mpq_QSdata *mk_p(int nstruct, int nrows, int with_basis)
{
	mpq_QSdata *p = qsv_alloc(sizeof *p);
	p->qslp = qsv_alloc(sizeof *p->qslp); p->lp = qsv_alloc(sizeof *p->lp); p->lp->O = p->qslp;
	p->qslp->nstruct = nstruct; p->qslp->nrows = nrows; p->qslp->ncols = nstruct + nrows;
	p->pricing = 0; p->name = 0; p->cache = 0;
	p->basis = with_basis ? mk_illbasis(nstruct, nrows) : 0;
	{ IN_INT(qstatus); p->qstatus = qstatus; }
	{ IN_BOOL(factorok); p->factorok = factorok; }
	return p;
}

void harness(void)
{
	int rv;
#if defined(FN_QSwrite_basis)
	IN_BOOL(p_null); IN_BOOL(has_basis); IN_BOOL(give_B);
	IN_INT(nstruct); IN_INT(nrows); IN_INT(bs); IN_INT(br); IN_INT(gi); IN_INT(gj);
	mpq_QSdata *p; QSbasis *B = 0;
	ASSUME(0 <= nstruct && nstruct <= NB && 0 <= nrows && nrows <= NB);
	ASSUME(0 <= bs && bs <= NB && 0 <= br && br <= NB);
	p = p_null ? 0 : mk_p(nstruct, nrows, has_basis);
	if (give_B) B = mk_qsbasis(bs, br);
	{
		mpq_ILLlp_basis *ob = p ? p->basis : 0;
		char *ocs = ob ? ob->cstat : 0, *ors = ob ? ob->rstat : 0;
		mpq_t *orn = ob ? ob->rownorms : 0, *ocn = ob ? ob->colnorms : 0;
		char cs_gi = 0, rs_gj = 0;
		int oq = p ? p->qstatus : 0, of = p ? p->factorok : 0;
		if (ob && 0 <= gi && gi < nstruct) cs_gi = ocs[gi];
		if (ob && 0 <= gj && gj < nrows) rs_gj = ors[gj];
		g_wb_called = 0; g_wb_basis = 0; g_wb_rv = 0;
		rv = mpq_QSwrite_basis(p, B, 0);
		ASSERT(p != 0 || rv != 0, "C07: NULL problem pointer is rejected");
		if (p) {
			ASSERT(p->basis == ob && p->qstatus == oq && p->factorok == of, "C14: writing a basis does not replace the problem's basis, status or factorization flag");
			if (ob) {
				ASSERT(ob->nstruct == nstruct && ob->nrows == nrows, "C14: the problem's basis keeps its dimensions after being written");
				ASSERT(ob->cstat == ocs && ob->rstat == ors && ob->rownorms == orn && ob->colnorms == ocn, "C14: the problem's basis keeps its status and norm arrays after being written");
				if (0 <= gi && gi < nstruct) ASSERT(ob->cstat[gi] == cs_gi, "C14: column statuses of the problem's basis unchanged (and still allocated)");
				if (0 <= gj && gj < nrows) ASSERT(ob->rstat[gj] == rs_gj, "C14: row statuses of the problem's basis unchanged (and still allocated)");
				if (orn) ASSERT(((size_t *) orn)[-1] == 1, "C14: row norms still allocated");
			}
			if (!B && !ob) ASSERT(rv != 0 && !g_wb_called, "C14: nothing to write without a basis");
			if (!B && ob) ASSERT(g_wb_called && g_wb_basis == ob && rv == g_wb_rv, "C14: the problem's own basis is what is written");
			if (rv == 0) ASSERT(g_wb_called, "C14: success only after the writer ran");
		}
	}
#else
#error "select a function with -DFN_<name>"
#endif
	REACH_END();
}
QSV_MAIN(harness)
