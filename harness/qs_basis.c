/* basis entry points of qsopt.c (C14 frame of QSwrite_basis, C07 rejection of malformed bases,
 * C12 export/import copies).  One section per function (-DFN_<name>).  Real code: qsopt_mpq.c,
 * lpdata_mpq.c (ILLlp_basis_init/free), allocrus.c.  Stubs: ILLlib_writebasis (nondeterministic
 * result, records which basis it was given and reads it, so a dangling basis is a pointer error). */
#include "qsbasis_contracts.h"
struct qsv_ghost qsv_g;
int g_old_objsense;
int g_lib_rv, g_lib_called, g_cache_freed, g_basis_freed, g_basis_ok, g_cache_ok, g_factorok_out, g_factorok_in, g_sinfo_freed;
int g_wb_called, g_wb_rv;
void *g_wb_basis;
#ifndef NB
#define NB QSV_CAP
#endif

int mpq_ILLlib_writebasis(mpq_lpinfo *lp, mpq_ILLlp_basis *B, const char *fname)
{
	g_wb_called = 1; g_wb_basis = B;
#ifdef QSV_CBMC
	g_wb_rv = nondet_int();
#else
	g_wb_rv = (int) qsv_in("wb_rv");
#endif
	return g_wb_rv;
}

/* an arbitrary internal basis of the given size (status arrays exist iff size > 0 or by choice) */
static mpq_ILLlp_basis *mk_illbasis(int nstruct, int nrows)
{
	mpq_ILLlp_basis *B = qsv_alloc(sizeof *B);
	B->nstruct = nstruct; B->nrows = nrows;
	B->cstat = qsv_alloc((size_t) nstruct); B->rstat = qsv_alloc((size_t) nrows);
	{ IN_BOOL(has_rownorms); B->rownorms = has_rownorms ? qsv_numarray(1) : 0; B->rownorms_size = has_rownorms; }
	{ IN_BOOL(has_colnorms); B->colnorms = has_colnorms ? qsv_numarray(1) : 0; B->colnorms_size = has_colnorms; }
	return B;
}
static QSbasis *mk_qsbasis(int nstruct, int nrows)
{
	QSbasis *B = qsv_alloc(sizeof *B);
	B->nstruct = nstruct; B->nrows = nrows;
	B->cstat = qsv_alloc((size_t) nstruct); B->rstat = qsv_alloc((size_t) nrows);
	return B;
}
static mpq_QSdata *mk_p(int nstruct, int nrows, int with_basis)
{
	mpq_QSdata *p = qsv_alloc(sizeof *p);
	p->qslp = qsv_alloc(sizeof *p->qslp); p->lp = qsv_alloc(sizeof *p->lp); p->lp->O = p->qslp;
	p->qslp->nstruct = nstruct; p->qslp->nrows = nrows; p->qslp->ncols = nstruct + nrows;
	p->pricing = 0; p->name = 0; p->cache = 0;
	p->basis = with_basis ? mk_illbasis(nstruct, nrows) : 0;
	{ IN_INT(qstatus); p->qstatus = qstatus; }
	{ IN_BOOL(factorok); p->factorok = factorok; }
	return p;
}

void harness(void)
{
	int rv;
#if defined(FN_QSwrite_basis)
	IN_BOOL(p_null); IN_BOOL(has_basis); IN_BOOL(give_B);
	IN_INT(nstruct); IN_INT(nrows); IN_INT(bs); IN_INT(br); IN_INT(gi); IN_INT(gj);
	mpq_QSdata *p; QSbasis *B = 0;
	ASSUME(0 <= nstruct && nstruct <= NB && 0 <= nrows && nrows <= NB);
	ASSUME(0 <= bs && bs <= NB && 0 <= br && br <= NB);
	p = p_null ? 0 : mk_p(nstruct, nrows, has_basis);
	if (give_B) B = mk_qsbasis(bs, br);
	{
		mpq_ILLlp_basis *ob = p ? p->basis : 0;
		char *ocs = ob ? ob->cstat : 0, *ors = ob ? ob->rstat : 0;
		mpq_t *orn = ob ? ob->rownorms : 0, *ocn = ob ? ob->colnorms : 0;
		char cs_gi = 0, rs_gj = 0;
		int oq = p ? p->qstatus : 0, of = p ? p->factorok : 0;
		if (ob && 0 <= gi && gi < nstruct) cs_gi = ocs[gi];
		if (ob && 0 <= gj && gj < nrows) rs_gj = ors[gj];
		g_wb_called = 0; g_wb_basis = 0; g_wb_rv = 0;
		rv = mpq_QSwrite_basis(p, B, 0);
		ASSERT(p != 0 || rv != 0, "C07: NULL problem pointer is rejected");
		if (p) {
			ASSERT(p->basis == ob && p->qstatus == oq && p->factorok == of, "C14: writing a basis does not replace the problem's basis, status or factorization flag");
			if (ob) {
				ASSERT(ob->nstruct == nstruct && ob->nrows == nrows, "C14: the problem's basis keeps its dimensions after being written");
				ASSERT(ob->cstat == ocs && ob->rstat == ors && ob->rownorms == orn && ob->colnorms == ocn, "C14: the problem's basis keeps its status and norm arrays after being written");
				if (0 <= gi && gi < nstruct) ASSERT(ob->cstat[gi] == cs_gi, "C14: column statuses of the problem's basis unchanged (and still allocated)");
				if (0 <= gj && gj < nrows) ASSERT(ob->rstat[gj] == rs_gj, "C14: row statuses of the problem's basis unchanged (and still allocated)");
				if (orn) ASSERT(((size_t *) orn)[-1] == 1, "C14: row norms still allocated");
			}
			if (!B && !ob) ASSERT(rv != 0 && !g_wb_called, "C14: nothing to write without a basis");
			if (!B && ob) ASSERT(g_wb_called && g_wb_basis == ob && rv == g_wb_rv, "C14: the problem's own basis is what is written");
			if (rv == 0) ASSERT(g_wb_called, "C14: success only after the writer ran");
		}
	}
#elif defined(FN_QSload_basis) || defined(FN_QSload_basis_array)
	/* C07: a size-mismatched or malformed basis (illegal status byte, at-upper on a non-ranged row, not exactly
	 * nrows basic entries) is rejected and the problem's basis / factorization flag stay as they were;
	 * C12: an accepted basis is stored entry by entry.  BOUND: nstruct, nrows <= NBMAX (loops unwound). */
#ifndef NBMAX
#define NBMAX 3
#endif
	IN_BOOL(has_basis); IN_INT(nstruct); IN_INT(nrows); IN_INT(bs); IN_INT(br);
	mpq_QSdata *p; QSbasis *B; int i, nbas = 0, legal = 1, valid;
	/* sizes >= 1: malloc(0) is implementation-defined (glibc returns a unique pointer, CBMC's model NULL) */
	ASSUME(1 <= nstruct && nstruct <= NBMAX && 1 <= nrows && nrows <= NBMAX && 1 <= bs && bs <= NBMAX && 1 <= br && br <= NBMAX);
#ifdef FN_QSload_basis_array
	ASSUME(bs == nstruct && br == nrows);		/* the array interface has no sizes of its own */
#endif
	p = mk_p(nstruct, nrows, has_basis);
	p->qslp->sense = qsv_alloc((size_t) nrows);
	for (i = 0; i < NBMAX; i++) if (i < nrows) { char c = nondet_char(); ASSUME(c == 'L' || c == 'G' || c == 'E' || c == 'R'); p->qslp->sense[i] = c; }
	/* range values exist independently of the senses (ILLlib_chgsense does not reset them): arbitrary, possibly absent */
	p->qslp->rangeval = nondet_bool() ? qsv_numarray(NBMAX) : 0;
	if (p->qslp->rangeval) for (i = 0; i < NBMAX; i++) qsv_setnum(p->qslp->rangeval[i], qsv_nondet_payload());
	B = mk_qsbasis(bs, br);
	{ IN_BOOL(has_cache); if (has_cache) { p->cache = qsv_alloc(sizeof *p->cache); mpq_init(p->cache->val); mpq_ILLlp_cache_init(p->cache); } }	/* a stored solution of the last solve */
	for (i = 0; i < NBMAX; i++) if (i < bs) { char c = B->cstat[i]; if (c == QS_COL_BSTAT_BASIC) nbas++; if (c != QS_COL_BSTAT_LOWER && c != QS_COL_BSTAT_BASIC && c != QS_COL_BSTAT_UPPER && c != QS_COL_BSTAT_FREE) legal = 0; }
	for (i = 0; i < NBMAX; i++) if (i < br) { char c = B->rstat[i]; if (c == QS_ROW_BSTAT_BASIC) nbas++; if (c != QS_ROW_BSTAT_LOWER && c != QS_ROW_BSTAT_BASIC && c != QS_ROW_BSTAT_UPPER) legal = 0;
		if (c == QS_ROW_BSTAT_UPPER && br == nrows && p->qslp->sense[i] != 'R') legal = 0; }
	valid = (bs == nstruct && br == nrows && legal && nbas == nrows);
	{
		mpq_ILLlp_basis *ob = p->basis;
		char *ocs = ob ? ob->cstat : 0, *ors = ob ? ob->rstat : 0;
		int of = p->factorok, ons = ob ? ob->nstruct : 0, onr = ob ? ob->nrows : 0;
		char c0 = (ob && nstruct > 0) ? ocs[0] : 0;
		int has_cache_before = p->cache != 0;
#ifdef FN_QSload_basis
		rv = mpq_QSload_basis(p, B);
#else
		rv = mpq_QSload_basis_array(p, B->cstat, B->rstat);
#endif
		ASSERT(rv == 0 || !valid, "C12: a well-formed basis of the right size is accepted");
		ASSERT(rv != 0 || valid, "C07: a size-mismatched or malformed basis is rejected with a non-zero code");
		if (rv != 0) {
			ASSERT(p->basis == ob && p->factorok == of && (p->cache != 0) == has_cache_before, "C07: a rejected basis leaves the problem's basis pointer, factorization flag and stored solution untouched");
			if (ob) ASSERT(ob->nstruct == ons && ob->nrows == onr && ob->cstat == ocs && ob->rstat == ors && (nstruct == 0 || ocs[0] == c0), "C07: a rejected basis leaves the contents of the problem's basis untouched");
		} else {
			ASSERT(p->factorok == 0 && p->basis != 0 && p->basis->nstruct == nstruct && p->basis->nrows == nrows, "C12: an accepted basis becomes the problem's basis and the old factorization is dropped");
			ASSERT(p->cache == 0, "C05: the stored solution belongs to the basis it was computed with: loading another basis drops it (ILLlib_delrows keeps a stored solution when the deleted rows are basic in the STORED basis)");
			for (i = 0; i < NBMAX; i++) if (i < nstruct) ASSERT(p->basis->cstat[i] == B->cstat[i], "C12: column statuses stored entry by entry");
			for (i = 0; i < NBMAX; i++) if (i < nrows) ASSERT(p->basis->rstat[i] == B->rstat[i], "C12: row statuses stored entry by entry");
		}
		COVER_MUST(rv == 0 && nrows == NBMAX, "accepted");
		COVER_MUST(rv != 0 && bs == nstruct && br == nrows, "malformed");
	}
#else
#error "select a function with -DFN_<name>"
#endif
	REACH_END();
}
QSV_MAIN(harness)
