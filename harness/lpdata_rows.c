/* C06 / C17 "ILLlp_rows_init sized by nzcount": the row-major copy of the constraint matrix (lpdata.c, REAL) on a
 * CONSTRUCTED problem of 2 rows and 2 structural columns (column a in rows 0 and 1, column b in row 1; one logical per
 * row), logical columns stored first or last, symbolic coefficient values, with and without the logicals.
 *   - every row lists exactly its coefficients: (external column index, value) for each structural entry -- and its
 *     logical when logicals are included --, nothing else; rows are laid out one after the other
 *   - the arrays are allocated from the nonzero count and every write stays inside them (bounds obligations)
 * Concrete sparsity pattern (the allocation sizes must be compile-time constants for CBMC), symbolic values and layout. */
#include <string.h>
#include "qsv.h"
#include "qs_config.h"
#include "lpdata_mpq.h"
void harness(void)
{
	static mpq_ILLlpdata lpd; mpq_ILLlpdata *lp = &lpd; static mpq_ILLlp_rows R;
	static int matbeg[4], matcnt[4], matind[6], structmap[2], rowmap[2]; static mpq_t matval[6];
	int lf = nondet_bool(), incl = nondet_bool(), va0 = nondet_int(), va1 = nondet_int(), vb1 = nondet_int(), l0 = nondet_bool() ? 1 : -1, l1 = nondet_bool() ? 1 : -1;
	int a, b, g0, g1, pos = 0, rv, k, cnt0, cnt1, seen_a0 = 0, seen_a1 = 0, seen_b1 = 0, seen_l0 = 0, seen_l1 = 0;
	qsv_init_globals();
	/* internal column order: logicals first (lf) or last */
	g0 = lf ? 0 : 2; g1 = lf ? 1 : 3; a = lf ? 2 : 0; b = lf ? 3 : 1;
	for (k = 0; k < 4; k++) {
		matbeg[k] = pos;
		if (k == a) { matcnt[k] = 2; matind[pos] = 0; qsv_setnum(matval[pos], va0); pos++; matind[pos] = 1; qsv_setnum(matval[pos], va1); pos++; }
		else if (k == b) { matcnt[k] = 1; matind[pos] = 1; qsv_setnum(matval[pos], vb1); pos++; }
		else if (k == g0) { matcnt[k] = 1; matind[pos] = 0; qsv_setnum(matval[pos], l0); pos++; }
		else { matcnt[k] = 1; matind[pos] = 1; qsv_setnum(matval[pos], l1); pos++; }
	}
	matind[5] = -1;
	lp->nrows = 2; lp->ncols = 4; lp->nstruct = 2; lp->nzcount = 5; lp->structmap = structmap; lp->rowmap = rowmap; structmap[0] = a; structmap[1] = b; rowmap[0] = g0; rowmap[1] = g1;
	lp->A.matbeg = matbeg; lp->A.matcnt = matcnt; lp->A.matind = matind; lp->A.matval = matval; lp->A.matrows = 2; lp->A.matcols = 4; lp->A.matsize = 6; lp->A.matfree = 1;
	rv = mpq_ILLlp_rows_init(&R, lp, incl);
	ASSERT(rv == 0, "C06: the row view of a well-formed matrix is built");
	cnt0 = incl ? 2 : 1; cnt1 = incl ? 3 : 2;
	ASSERT(R.rowcnt[0] == cnt0 && R.rowcnt[1] == cnt1 && R.rowbeg[0] == 0 && R.rowbeg[1] == cnt0, "C06: each row has as many entries as it has coefficients (plus its logical when asked for), rows laid out one after the other");
	for (k = 0; k < 3; k++) if (k < cnt0) { int c = R.rowind[k], v = NUMV(R.rowval[k]);
		if (c == (incl ? a : 0) && v == va0 && !seen_a0) seen_a0 = 1; else if (incl && c == g0 && v == l0 && !seen_l0) seen_l0 = 1; else ASSERT(0, "C06: row 0 lists only its own coefficients, each once"); }
	for (k = 0; k < 3; k++) if (k < cnt1) { int c = R.rowind[cnt0 + k], v = NUMV(R.rowval[cnt0 + k]);
		if (c == (incl ? a : 0) && v == va1 && !seen_a1) seen_a1 = 1; else if (c == (incl ? b : 1) && v == vb1 && !seen_b1) seen_b1 = 1; else if (incl && c == g1 && v == l1 && !seen_l1) seen_l1 = 1; else ASSERT(0, "C06: row 1 lists only its own coefficients, each once"); }
	ASSERT(seen_a0 && seen_a1 && seen_b1 && (!incl || (seen_l0 && seen_l1)), "C06: every coefficient appears in its row, under the external column index (structural order) or the internal one (with logicals)");
	REACH_END();
}
QSV_MAIN(harness)
