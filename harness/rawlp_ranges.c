/* C10 (MPS RANGES are read with their documented meaning) / C11 (a RANGES entry on an N row is rejected without touching
 * memory): transferRanges (static, rawlp.c, REAL) in EXACT integer arithmetic (GMP model EXACT+NARROW).
 * For every assignment of senses N/G/L/E to NRAW raw rows and every list of at most NRNG range entries on distinct rows:
 *   - an entry on an N row: the conversion fails (non-zero) -- and performs no out-of-bounds access (rowindex is -1 there)
 *   - otherwise every row with an entry r becomes a ranged row 'R' storing  rhs' <= row <= rhs' + rangeval'  with
 *         G:  [rhs, rhs + |r|]     L:  [rhs - |r|, rhs]     E, r >= 0:  [rhs, rhs + r]     E, r < 0:  [rhs + r, rhs]
 *     and every row without entry keeps its sense and right-hand side and has range value 0.
 * BOUND: NRAW = 3 rows, NRNG = 2 entries, values in -3..3. */
#include <string.h>
#include "qsv.h"
#include "qs_config.h"
#include "rawlp_mpq.h"
#include "lpdata_mpq.h"
#define NRAW 3
#define NRNG 2
int __CPROVER_file_local_rawlp_mpq_c_transferRanges(mpq_rawlpdata *raw, mpq_ILLlpdata *lp, int *rowindex);
static int errors;
int mpq_ILLdata_error(mpq_qserror_collector *collector, const char *format, ...) { errors++; return 1; }
static int pick(int lo_, int hi_) { int v = (int) (nondet_uint() & 7u) + lo_; ASSUME(v <= hi_); return v; }
static int V(mpq_t q) { ASSERT(DENV(q) == 1, "model: value stays integral in this bounded group"); return NUMV(q); }
void harness(void)
{
	static mpq_rawlpdata raw; static mpq_ILLlpdata lpd; static mpq_colptr node[NRNG];
	static char rsense[NRAW], sense[NRAW]; static mpq_t rhs[NRAW];
	static const char codes[4] = { 'N', 'G', 'L', 'E' };
	int rowindex[NRAW], rhs0[NRAW], rng[NRAW], has[NRAW], i, k, n, rv, onN = 0;
	qsv_init_globals();
	for (i = 0; i < NRAW; i++) {
		rsense[i] = codes[pick(0, 3)]; rowindex[i] = rsense[i] == 'N' ? -1 : i; sense[i] = rsense[i];
		rhs0[i] = pick(-3, 3); qsv_setnum(rhs[i], rhs0[i]); has[i] = 0; rng[i] = 0;
	}
	raw.rowsense = rsense; raw.nrows = NRAW; raw.error_collector = 0; raw.ranges = 0;
	lpd.nrows = NRAW; lpd.sense = sense; lpd.rhs = rhs; lpd.rangeval = 0;
	n = pick(0, NRNG);
	for (k = 0; k < NRNG; k++) if (k < n) {
		int r = pick(0, NRAW - 1), v = pick(-3, 3);
		ASSUME(!has[r]);	/* mps.c add_ranges rejects a second RANGES entry for a row (rangesind) */
		has[r] = 1; rng[r] = v; if (rsense[r] == 'N') onN = 1;
		qsv_setnum(node[k].coef, v); node[k].this_val = r; node[k].next = raw.ranges; raw.ranges = &node[k];
	}
	rv = __CPROVER_file_local_rawlp_mpq_c_transferRanges(&raw, &lpd, rowindex);
	ASSERT((rv != 0) == onN, "C11: a RANGES entry for an N row is an error, every other RANGES section is accepted");
	if (rv == 0) {
		for (i = 0; i < NRAW; i++) if (rsense[i] != 'N') {
			int lo = rhs0[i], hi = rhs0[i], a = rng[i] < 0 ? -rng[i] : rng[i];
			if (has[i]) {
				if (rsense[i] == 'G') hi = rhs0[i] + a;
				else if (rsense[i] == 'L') lo = rhs0[i] - a;
				else if (rng[i] >= 0) hi = rhs0[i] + rng[i];
				else lo = rhs0[i] + rng[i];
				ASSERT(sense[i] == 'R' && V(rhs[i]) == lo && V(lpd.rangeval[i]) == hi - lo,
					"C10: G: [rhs, rhs+|r|], L: [rhs-|r|, rhs], E: [rhs, rhs+r] for r >= 0 and [rhs+r, rhs] for r < 0, stored as rhs' <= row <= rhs' + range'");
			} else
				ASSERT(sense[i] == rsense[i] && V(rhs[i]) == rhs0[i] && V(lpd.rangeval[i]) == 0, "C10: a row without RANGES entry keeps its sense and right-hand side, range value 0");
		}
		COVER_MUST(n == 2 && has[1] && rsense[1] == 'E' && rng[1] < 0, "negative_range_on_E_row");
	} else
		COVER_MUST(onN, "range_on_N_row");
	REACH_END();
}
QSV_MAIN(harness)
