/* C01/C02 gating: the REAL QSexact_solver and the REAL QSexact_basis_status (exact.c compiled as
 * is).  Replaced by ghost-recording stubs (bodies removed with goto-instrument
 * --remove-function-body): QSexact_optimal_test, QSexact_infeasible_test (their own contracts are
 * decided in the exact/opttest, exact/inftest groups), optimal_output, infeasible_output (copy
 * contracts decided in exact/output), QScopy_prob_mpq_dbl/mpf; every other-TU callee is a
 * nondeterministic stub (any return value, any status): a sound over-approximation for a gating
 * property.
 *
 * Ghost state:  g_opt_cert / g_inf_cert = "the last exact test returned 1 and nothing has touched
 * the tested vectors or the problem since"; every stub that rewrites x_mpq / y_mpq or reloads a
 * basis into the rational problem clears them.
 *
 * Postconditions (from the property statements):
 *   C01  rval == 0 && *status == OPTIMAL    ==> handed-out x,y are the vectors of a passed optimal test
 *   C02  rval == 0 && *status == INFEASIBLE ==> handed-out y is the vector of a passed infeasible test
 */
#include <stdlib.h>
#include <string.h>
#include <stdbool.h>
#include "qs_config.h"
#include "QSopt_ex.h"
#include "qsv.h"
#include <sys/resource.h>

int g_opt_cert, g_inf_cert;
void *g_cert_x, *g_cert_y, *g_out_x_from, *g_out_y_from;
int g_out_opt, g_out_inf;
int __QS_SB_VERB;	/* verbosity threshold (defined in except.c, not linked here): an arbitrary input */

/* other-TU callees: nondeterministic stubs.  NS = length of the arrays they hand back. */
#ifndef NS
#define NS 0
#endif
void mpq_EGlpNumSet(mpq_t v, const double d) { v->_mp_num._mp_size = nondet_int(); v->_mp_den._mp_size = 1; }
static dbl_QSdata *mk_dbl(void) { dbl_QSdata *p = qsv_alloc(sizeof *p); p->qslp = qsv_alloc(sizeof *p->qslp); p->lp = qsv_alloc(sizeof *p->lp); p->qslp->ncols = NS; p->qslp->nrows = NS; p->lp->final_phase = nondet_int(); p->simplex_display = 0; return p; }
static mpf_QSdata *mk_mpf(void) { mpf_QSdata *p = qsv_alloc(sizeof *p); p->qslp = qsv_alloc(sizeof *p->qslp); p->lp = qsv_alloc(sizeof *p->lp); p->qslp->ncols = NS; p->qslp->nrows = NS; p->lp->final_phase = nondet_int(); p->basis = 0; p->simplex_display = 0; return p; }
int g_basis_live;	/* ghost: QSbasis objects handed out by the stubs and not yet freed */
#ifndef NSB
#define NSB NS	/* columns / rows of the basis objects the stubs hand out */
#endif
#ifndef NRB
#define NRB NS
#endif
static QSbasis *mk_basis(void)
{	QSbasis *b = qsv_alloc(sizeof *b); int i; g_basis_live++; b->nstruct = NSB; b->nrows = NRB; b->cstat = malloc(NSB); b->rstat = malloc(NRB);
	for (i = 0; i < NSB; i++) if (b->cstat) b->cstat[i] = nondet_char();
	for (i = 0; i < NRB; i++) if (b->rstat) b->rstat[i] = nondet_char();
	return b; }
/* ghost: content of the basis that went through the last accepted exact optimality test */
char g_cert_cs[NSB + 1], g_cert_rs[NRB + 1]; int g_cert_ns = -1, g_cert_nr = -1;
int dbl_QSload_basis(dbl_QSdata *p, QSbasis *B) { return nondet_int(); }
int dbl_ILLeditor_solve(dbl_QSdata *p, int a) { return nondet_int(); }
int dbl_QSget_status(dbl_QSdata *p, int *s) { *s = nondet_int(); return nondet_int(); }
int dbl_QSopt_primal(dbl_QSdata *p, int *s) { *s = nondet_int(); return nondet_int(); }
int dbl_QSget_itcnt(dbl_QSdata *p, int *a, int *b, int *c, int *d, int *e) { if (e) *e = nondet_int(); return nondet_int(); }
int dbl_QSget_x_array(dbl_QSdata *p, double *x) { return nondet_int(); }
int dbl_QSget_pi_array(dbl_QSdata *p, double *x) { return nondet_int(); }
int dbl_QSget_infeas_array(dbl_QSdata *p, double *x) { return nondet_int(); }
#ifdef FN_ebasis	/* allocation failure is not the subject of the hand-over group */
#define MAYBE_BASIS() mk_basis()
#else
#define MAYBE_BASIS() (nondet_bool() ? mk_basis() : 0)
#endif
QSbasis *dbl_QSget_basis(dbl_QSdata *p) { return MAYBE_BASIS(); }
void dbl_QSfree_prob(dbl_QSdata *p) { if (p) { free(p->qslp); free(p->lp); free(p); } }
int mpf_QSload_basis(mpf_QSdata *p, QSbasis *B) { return nondet_int(); }
int mpf_ILLeditor_solve(mpf_QSdata *p, int a) { return nondet_int(); }
int mpf_QSget_status(mpf_QSdata *p, int *s) { *s = nondet_int(); return nondet_int(); }
int mpf_QSopt_primal(mpf_QSdata *p, int *s) { *s = nondet_int(); return nondet_int(); }
int mpf_QSget_itcnt(mpf_QSdata *p, int *a, int *b, int *c, int *d, int *e) { if (e) *e = nondet_int(); return nondet_int(); }
int mpf_QSget_x_array(mpf_QSdata *p, mpf_t *x) { return nondet_int(); }
int mpf_QSget_pi_array(mpf_QSdata *p, mpf_t *x) { return nondet_int(); }
int mpf_QSget_infeas_array(mpf_QSdata *p, mpf_t *x) { return nondet_int(); }
QSbasis *mpf_QSget_basis(mpf_QSdata *p) { return MAYBE_BASIS(); }
void mpf_QSfree_prob(mpf_QSdata *p) { if (p) { free(p->qslp); free(p->lp); free(p); } }
void mpf_QSfree_basis(QSbasis *b) { if (b) { g_basis_live--; free(b->cstat); free(b->rstat); free(b); } }
void mpq_QSfree_basis(QSbasis *b) { if (b) { g_basis_live--; free(b->cstat); free(b->rstat); free(b); } }
void dbl_QSfree_basis(QSbasis *b) { if (b) { g_basis_live--; free(b->cstat); free(b->rstat); free(b); } }
void mpf_ILLlp_basis_free(mpf_ILLlp_basis *B) { }
void mpf_QSset_precision(const unsigned prec) { }
int mpq_QSwrite_prob(mpq_QSdata *p, const char *a, const char *b) { return nondet_int(); }
int mpf_QSwrite_prob(mpf_QSdata *p, const char *a, const char *b) { return nondet_int(); }
/* everything that rewrites the candidate vectors or the rational problem invalidates a certificate */
#define DIRTY() do { g_opt_cert = 0; g_inf_cert = 0; } while (0)
int mpq_QSget_x_array(mpq_QSdata *p, mpq_t *x) { DIRTY(); return nondet_int(); }
int mpq_QSget_pi_array(mpq_QSdata *p, mpq_t *x) { DIRTY(); return nondet_int(); }
int mpq_QSget_infeas_array(mpq_QSdata *p, mpq_t *x) { DIRTY(); return nondet_int(); }
int g_loaded_ok, g_load_calls; QSbasis *g_loaded_basis;
int mpq_QSload_basis(mpq_QSdata *p, QSbasis *B) { int r = nondet_int(); DIRTY(); g_loaded_ok = (r == 0); g_load_calls++; g_loaded_basis = B; return r; }

/* same-TU callees whose bodies are removed and replaced by their (ghost) contracts */
int QSexact_optimal_test(mpq_QSdata *p, mpq_t *p_sol, mpq_t *d_sol, QSbasis *basis)
{ int r = nondet_bool(), i; DIRTY(); g_opt_cert = r; if (r) { g_cert_x = p_sol; g_cert_y = d_sol;
	if (basis) { g_cert_ns = basis->nstruct; g_cert_nr = basis->nrows; for (i = 0; i < NSB; i++) if (i < basis->nstruct) g_cert_cs[i] = basis->cstat[i]; for (i = 0; i < NRB; i++) if (i < basis->nrows) g_cert_rs[i] = basis->rstat[i]; } }
  return r; }
int QSexact_infeasible_test(mpq_QSdata *p, mpq_t *d_sol)
{ int r = nondet_bool(); DIRTY(); g_inf_cert = r; if (r) { g_cert_y = d_sol; } return r; }
void optimal_output(mpq_QSdata *p, mpq_t *const x, mpq_t *const y, mpq_t *x_mpq, mpq_t *y_mpq)
{ g_out_opt = 1; g_out_inf = 0; g_out_x_from = x_mpq; g_out_y_from = y_mpq; }
void infeasible_output(mpq_QSdata *p, mpq_t *const y, mpq_t *y_mpq)
{ g_out_inf = 1; g_out_opt = 0; g_out_y_from = y_mpq; }
dbl_QSdata *QScopy_prob_mpq_dbl(mpq_QSdata *p, const char *n) { return mk_dbl(); }
mpf_QSdata *QScopy_prob_mpq_mpf(mpq_QSdata *p, const char *n) { return mk_mpf(); }

/* callees of the real QSexact_basis_status */
void mpq_ILLlp_cache_free(mpq_ILLlp_cache *C) { }	/* frees the four arrays only (lpdata.c); the arrays are absent here */
void mpq_ILLlp_sinfo_free(mpq_ILLlp_sinfo *s) { }
void mpq_ILLlp_rows_clear(mpq_ILLlp_rows *r) { }
void mpq_free_internal_lpinfo(mpq_lpinfo *lp) { }
void mpq_init_internal_lpinfo(mpq_lpinfo *lp) { }
int mpq_build_internal_lpinfo(mpq_lpinfo *lp) { return nondet_int(); }
void mpq_ILLfct_set_variable_type(mpq_lpinfo *lp) { }
int mpq_ILLbasis_load(mpq_lpinfo *lp, mpq_ILLlp_basis *B) { return nondet_int(); }
int mpq_ILLbasis_factor(mpq_lpinfo *lp, int *s) { *s = nondet_int(); return nondet_int(); }
void mpq_ILLfct_compute_piz(mpq_lpinfo *lp) { }
void mpq_ILLfct_compute_dz(mpq_lpinfo *lp) { }
void mpq_ILLfct_compute_xbz(mpq_lpinfo *lp) { }
void mpq_ILLfct_compute_phaseI_piz(mpq_lpinfo *lp) { }
void mpq_ILLfct_check_pfeasible(mpq_lpinfo *lp, mpq_feas_info *fi, const mpq_t t) { fi->pstatus = nondet_int(); }
void mpq_ILLfct_check_dfeasible(mpq_lpinfo *lp, mpq_feas_info *fi, const mpq_t t) { fi->dstatus = nondet_int(); }
void mpq_ILLfct_set_status_values(mpq_lpinfo *lp, int a, int b, int c, int d)
{ lp->basisstat.optimal = nondet_bool(); lp->basisstat.primal_infeasible = nondet_bool(); lp->basisstat.dual_unbounded = nondet_bool(); lp->basisstat.primal_unbounded = nondet_bool(); lp->basisstat.primal_feasible = nondet_bool(); lp->basisstat.dual_feasible = nondet_bool(); lp->basisstat.dual_infeasible = nondet_bool(); }
int mpq_QSgrab_cache(mpq_QSdata *p, int st) { return nondet_int(); }

#ifdef FN_output_copy
/* C01/C02: optimal_output / infeasible_output (static, exact.c): the vectors handed to the caller are entry-by-entry
 * copies of the vectors that passed the exact test, over their whole length (fixed length 2 here: size-header arrays). */
void __CPROVER_file_local_exact_c_optimal_output(mpq_QSdata *p, mpq_t *const x, mpq_t *const y, mpq_t *x_mpq, mpq_t *y_mpq);
void __CPROVER_file_local_exact_c_infeasible_output(mpq_QSdata *p, mpq_t *const y, mpq_t *y_mpq);
void harness(void)
{
	mpq_QSdata *p = qsv_alloc(sizeof *p);
	mpq_t *x = qsv_numarray(2), *y = qsv_numarray(2), *xq = qsv_numarray(2), *yq = qsv_numarray(2);
	int i, xv[2], yv[2]; IN_BOOL(opt); IN_BOOL(want_x); IN_BOOL(want_y);
	p->simplex_display = nondet_int();
	for (i = 0; i < 2; i++) { xv[i] = nondet_int(); yv[i] = nondet_int(); qsv_setnum(xq[i], xv[i]); qsv_setnum(yq[i], yv[i]); qsv_setnum(x[i], nondet_int()); qsv_setnum(y[i], nondet_int()); }
	if (opt) __CPROVER_file_local_exact_c_optimal_output(p, want_x ? x : 0, want_y ? y : 0, xq, yq);
	else __CPROVER_file_local_exact_c_infeasible_output(p, want_y ? y : 0, yq);
	for (i = 0; i < 2; i++) {
		if (want_y) ASSERT(NUMV(y[i]) == yv[i], "C01/C02: every entry of the row multipliers handed to the caller is the certified one (zero entries included)");
		if (opt && want_x) ASSERT(NUMV(x[i]) == xv[i], "C01: every entry of the primal vector handed to the caller is the certified one");
		ASSERT(NUMV(xq[i]) == xv[i] && NUMV(yq[i]) == yv[i], "frame: the certified vectors are not modified");
	}
	REACH_END();
}
#elif defined(FN_basis_status_leak)
/* C18: QSexact_basis_status (static, exact.c:1002; exported with goto-cc --export-file-local-symbols) discards the
 * stale solution cache before it re-evaluates the basis: the cache block AND the number it embeds (cache->val, a GMP
 * rational with its own heap storage -- one token in the TOKENS model) are released. */
extern int qsv_gmp_live;
int __CPROVER_file_local_exact_c_QSexact_basis_status(mpq_QSdata *p_mpq, int *status, QSbasis *const basis, const int msg_lvl, int *const simplexalgo);
void harness(void)
{
	mpq_QSdata *p = qsv_alloc(sizeof *p);
	int algo = nondet_int(), status = nondet_int(), rv;
	QSbasis *B = mk_basis();
	int live0;
	p->qslp = qsv_alloc(sizeof *p->qslp); p->lp = qsv_alloc(sizeof *p->lp);
	p->qslp->nrows = NS; p->qslp->sinfo = 0; p->qslp->rA = 0; p->lp->nrows = NS; p->lp->pIpiz = 0;
	p->basis = 0; p->simplex_display = 0; p->name = 0;
	p->cache = qsv_alloc(sizeof *p->cache);
	mpq_init(p->cache->val);
	live0 = qsv_gmp_live;
	rv = __CPROVER_file_local_exact_c_QSexact_basis_status(p, &status, B, 1, &algo);
	if (g_loaded_ok) {
		ASSERT(p->cache == 0, "C18: the stale solution cache is discarded before the basis is re-evaluated");
		ASSERT(qsv_gmp_live == live0 - 1, "C18: the number embedded in the discarded cache (cache->val) is cleared, and every number the function initialises itself is cleared again");
	}
	REACH_END();
}
#elif defined(FN_ebasis)
/* C12 "a basis handed back with an OPTIMAL result": QSexact_solver (REAL) called with the caller's in/out basis object --
 * empty, or holding arrays from an earlier solve of the same dimensions.  After rval 0 / OPTIMAL the object holds exactly
 * the basis that went through the accepted exact optimality test: its dimensions and EVERY column and row status. */
void harness(void)
{
	mpq_QSdata *p = qsv_alloc(sizeof *p);
	QSbasis *eb = qsv_alloc(sizeof *eb);
	int algo = nondet_int(), status, rv, i; IN_BOOL(warm);
	p->qslp = qsv_alloc(sizeof *p->qslp); p->lp = qsv_alloc(sizeof *p->lp);
	p->qslp->nrows = NS; p->qslp->sinfo = 0; p->qslp->rA = 0; p->lp->nrows = NS; p->lp->pIpiz = 0;
	p->cache = 0; p->basis = 0; p->simplex_display = 0; p->name = 0;
	{ IN_INT(sb_verb); __QS_SB_VERB = sb_verb; }
	if (warm) { eb->nstruct = NSB; eb->nrows = NRB; eb->cstat = malloc(NSB); eb->rstat = malloc(NRB); for (i = 0; i < NSB; i++) eb->cstat[i] = nondet_char(); for (i = 0; i < NRB; i++) eb->rstat[i] = nondet_char(); }
	else { eb->nstruct = 0; eb->nrows = 0; eb->cstat = 0; eb->rstat = 0; }
	g_opt_cert = 0; g_inf_cert = 0; g_out_opt = 0; g_out_inf = 0;
	rv = QSexact_solver(p, 0, 0, eb, algo, &status);
	if (rv == 0 && status == QS_LP_OPTIMAL) {
		ASSERT(g_opt_cert == 1, "C01 gating: OPTIMAL with rval 0 only after a passed exact optimal test");
		ASSERT(eb->nstruct == g_cert_ns && eb->nrows == g_cert_nr && eb->cstat != 0 && eb->rstat != 0, "C12: the basis handed back with OPTIMAL has the dimensions of the certified basis");
		for (i = 0; i < NSB; i++) ASSERT(eb->cstat[i] == g_cert_cs[i], "C12: every column status handed back is the certified basis's");
		for (i = 0; i < NRB; i++) ASSERT(eb->rstat[i] == g_cert_rs[i], "C12: every row status handed back is the certified basis's (all rows, also beyond the number of columns)");
	}
	free(eb->cstat); free(eb->rstat); free(eb);
	ASSERT(g_basis_live == 0, "C18: every basis object obtained during the precision ladder is released or handed over");
	COVER_MUST(rv == 0 && status == QS_LP_OPTIMAL && warm, "optimal_warm");
	REACH_END();
}
#elif defined(FN_verify)
/* C12 / C18: QSexact_verify (REAL, with the REAL QSexact_basis_dualstatus behind it); callees outside exact.c and
 * QSexact_optimal_test are arbitrary-result stubs.
 *   - without the approximate pre-step the exact dual test of the basis is run whatever the caller's result variable held
 *   - a verdict 1 comes from a passed exact optimality test of the approximate solution (with the objective value fetched)
 *     or from the exact dual test; nothing else sets it
 *   - every basis object and the double-precision copy obtained for the pre-step are released before the function returns */
void mpq_ILLfct_compute_dobj(mpq_lpinfo *lp) { }
int g_objval_rc;
int mpq_QSget_objval(mpq_QSdata *p, mpq_t *v) { g_objval_rc = nondet_int(); return g_objval_rc; }
void harness(void)
{
	mpq_QSdata *p = qsv_alloc(sizeof *p);
	QSbasis *B = mk_basis();
	IN_BOOL(useprestep); IN_BOOL(have_sol); IN_INT(msg); IN_BOOL(want);
	char result = nondet_char(); mpq_t dob; int rv;
	double dsol[1] = { 0.0 };
	p->qslp = qsv_alloc(sizeof *p->qslp); p->lp = qsv_alloc(sizeof *p->lp);
	p->qslp->nrows = NS; p->qslp->ncols = NS; p->qslp->sinfo = 0; p->qslp->rA = 0; p->lp->nrows = NS; p->lp->pIpiz = 0;
	p->cache = 0; p->basis = 0; p->simplex_display = 0; p->name = "P";
	mpq_init(dob); mpq_init(p->lp->dobjval); mpq_init(p->lp->objbound); mpq_init(p->lp->dinfeas);
	{ IN_INT(sb_verb); __QS_SB_VERB = sb_verb; }
	ASSUME(msg != 0 || want);	/* the progress message reads *dobjval: with messages on, the caller must pass one (documented usage) */
	g_opt_cert = 0;
	rv = QSexact_verify(p, B, useprestep, have_sol ? &dsol[0] : (double *) 0, have_sol ? &dsol[0] : (double *) 0, &result, want ? &dob : (mpq_t *) 0, msg);
	if (!useprestep) ASSERT(g_load_calls >= 1 && g_loaded_basis == B, "C12: without the pre-step the exact dual test is run on the caller's basis, whatever the result variable held on entry");
	if (rv == 0 && result != 0)
		ASSERT((g_opt_cert == 1 && g_load_calls == 0 && (!want || g_objval_rc == 0)) || (g_load_calls >= 1 && g_loaded_ok && (p->lp->basisstat.dual_feasible || (!p->lp->basisstat.dual_infeasible && p->lp->basisstat.dual_unbounded))),
			"C12: verdict 1 only after a passed exact optimality test of the approximate solution, or from the exact dual test of a basis");
	mpq_QSfree_basis(B);
	ASSERT(g_basis_live == 0, "C18: every basis object obtained from the double-precision problem for the pre-step is released before QSexact_verify returns");
	COVER_MUST(useprestep && rv == 0 && result == 1 && g_load_calls == 0, "accepted_by_prestep");
	COVER_MUST(useprestep && g_load_calls >= 1, "prestep_then_exact_test");
	REACH_END();
}
#else
void harness(void)
{
	mpq_QSdata *p = qsv_alloc(sizeof *p);
	int algo = nondet_int(), status, rv;
	p->qslp = qsv_alloc(sizeof *p->qslp); p->lp = qsv_alloc(sizeof *p->lp);
	p->qslp->nrows = NS; p->qslp->sinfo = 0; p->qslp->rA = 0; p->lp->nrows = NS; p->lp->pIpiz = 0;
	p->cache = 0; p->basis = 0; p->simplex_display = 0; p->name = 0;
	{ IN_INT(sb_verb); __QS_SB_VERB = sb_verb; }
	g_opt_cert = 0; g_inf_cert = 0; g_out_opt = 0; g_out_inf = 0;
	rv = QSexact_solver(p, 0, 0, 0, algo, &status);
	ASSERT(!(rv == 0 && status == QS_LP_OPTIMAL) || (g_opt_cert == 1 && g_out_opt == 1 && g_out_x_from == g_cert_x && g_out_y_from == g_cert_y),
		"C01 gating: OPTIMAL with rval 0 only after a passed exact optimal test on the vectors handed out");
	ASSERT(!(rv == 0 && status == QS_LP_INFEASIBLE) || (g_inf_cert == 1 && g_out_inf == 1 && g_out_y_from == g_cert_y),
		"C02 gating: INFEASIBLE with rval 0 only after a passed exact infeasible test on the multipliers handed out");
	ASSERT(g_basis_live == 0, "C18: every basis object obtained from the floating-point solvers during the precision ladder is released before the exact solver returns (no caller basis was passed)");
	COVER_MUST(rv == 0 && status == QS_LP_OPTIMAL, "optimal");
	COVER_MUST(rv == 0 && status == QS_LP_INFEASIBLE, "infeasible");
	REACH_END();
}
#endif
int getrusage(int who, struct rusage *r) { return 0; }
QSV_MAIN(harness)
