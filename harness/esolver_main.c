/* C19: the plumbing of esolver's main() (esolver/esolver.c, REAL, including the real parseargs): what is written
 * to the solution file is the documented function of what the library returned.
 *   - a problem file that cannot be read: non-zero exit value, no solve, no solution file
 *   - with -O: the solution stream is opened under the given name; its first line names exactly the status the
 *     solver returned (OPTIMAL / INFEASIBLE / UNBOUNDED / UNDEFINED); the solution body is printed iff the status is
 *     OPTIMAL (and a failure to print it makes the run fail); a successful run closes the stream exactly once
 *     (compressed streams are only complete after the close)
 *   - with -b: the basis is written after the solve, from the problem's own basis (B == NULL), under the given name
 *   - the exit value is the error code of the first failing step (0 if none)
 * Stubs: the option scanner ILLutil_bix_getopt (hands out an arbitrary sequence of the documented options), every
 * library call (arbitrary results), the EGio layer (ghost recording), rlimit/signal calls. */
#include <string.h>
#include <stdio.h>
#include <stdarg.h>
#include <signal.h>
#include <sys/resource.h>
#include "qsv.h"
#include "QSopt_ex.h"
int main(int ac, char **av);
int g_read_called, g_read_null, g_solve_called, g_solve_rv, g_status, g_open_calls, g_open_name_ok, g_line, g_lines, g_print_calls, g_print_rv, g_close_calls,
    g_wb_calls, g_wb_ok, g_wb_rv, g_wb_after_solve, g_free_prob, g_order_bad, g_rb_calls, g_rb_rv, g_setparam_rv;
static char a_prog[] = "es", a_file[16], a_sol[] = "o.sol", a_bas[] = "b.bas", a_rb[] = "r.bas", a_num[] = "1";
static int opt_given[128], g_kind, g_expect_lp;
static char t_p[] = "p", t_lp[] = "lp", t_LP[] = "LP", t_mps[] = "mps", t_gz[] = "gz", t_bz2[] = "bz2";
/* EGioNParse(buff, 128, ".", " ", &argc, argv) splits the file name at the dots (eg_io.c); stub: the split of the name chosen by the harness */
void EGioNParse(char *input, int max_argc, const char *delim, const char *comment, int *argc, char **argv)
{
	argv[0] = t_p;
	switch (g_kind) {
	case 0: argv[1] = t_lp; *argc = 2; break;                      /* p.lp      */
	case 1: argv[1] = t_lp; argv[2] = t_gz; *argc = 3; break;      /* p.lp.gz   */
	case 2: argv[1] = t_mps; *argc = 2; break;                     /* p.mps     */
	case 3: argv[1] = t_LP; argv[2] = t_bz2; *argc = 3; break;     /* p.LP.bz2  */
	case 4: argv[1] = t_mps; argv[2] = t_gz; *argc = 3; break;     /* p.mps.gz  */
	default: *argc = 1; break;                                     /* p         */
	}
}
static mpq_QSdata the_p; static mpq_ILLlpdata the_O; static EGioFile_t the_file;
int ILLutil_bix_getopt(int ac, char **av, const char *def, int *p_optind, char **p_optarg)
{	/* an arbitrary sequence of distinct documented options, then the file name as the last argument */
	static const char opts[] = "bBdLOpPSRm";
	if (nondet_bool()) {
		char c = opts[nondet_uint() % 10u];
#ifdef NO_O
		if (c == 'O') c = 'S';
#endif
#ifdef NO_b
		if (c == 'b') c = 'S';
#endif
		if (!opt_given[(int) c]) {
			opt_given[(int) c] = 1;
			*p_optarg = c == 'b' ? a_bas : c == 'B' ? a_rb : c == 'O' ? a_sol : a_num;
			return c;
		}
	}
	*p_optind = ac - 1;
	return EOF;
}
void QSopt_ex_version(void) { }
void QSexactStart(void) { }
void QSexactClear(void) { }
void mpf_QSset_precision(const unsigned prec) { }
char *mpq_QSversion(void) { return 0; }
void mpq_QSfree(void *p) { }
int getrlimit(__rlimit_resource_t r, struct rlimit *l) { l->rlim_cur = 0; l->rlim_max = 0; return 0; }
int setrlimit(__rlimit_resource_t r, const struct rlimit *l) { return 0; }
__sighandler_t signal(int s, __sighandler_t h) { return 0; }
int fprintf(FILE *f, const char *fmt, ...) { return 0; }
/* libc models: the formatting calls of main copy short strings; CBMC's own models (character loops over 4 KiB /
 * 1 KiB stack buffers) exhaust the solver's array post-processing */
int snprintf(char *s, size_t n, const char *fmt, ...) { if (n > 0) s[0] = 0; return 0; }
int sprintf(char *s, const char *fmt, ...) { s[0] = 'o'; s[1] = '.'; s[2] = 0; return 2; }	/* sprintf(out_f_name, "%s", solname), solname = "o.sol" */
char *strdup(const char *x) { char *r = malloc(3); if (r) { r[0] = x[0]; r[1] = x[1]; r[2] = 0; } return r; }
/* the problem the read stub hands out has dimension 0, so main's solution arrays have length 0 and are never
 * allocated; CBMC does not see that through the pointer, and a calloc of symbolic size is an unbounded byte array */
void *calloc(size_t n, size_t sz) { __CPROVER_assume(n * sz <= 64); return malloc(64); }
int atoi(const char *s) { return nondet_int(); }	/* CBMC's strtol model (digit loop with overflow arithmetic) exhausts the solver here; the values are irrelevant to the plumbing */
double strtod(const char *s, char **e) { return 1.0; }
unsigned long strtoul(const char *s, char **e, int b) { return 1ul; }
void ILLutil_init_timer(ILLutil_timer *t, const char *n) { }
void ILLutil_start_timer(ILLutil_timer *t) { }
double ILLutil_stop_timer(ILLutil_timer *t, int p) { return 0.0; }
mpq_QSdata *mpq_QSread_prob(const char *filename, const char *filetype)
{
	g_read_called++;
	if ((filetype[0] == 'L') != (g_expect_lp || opt_given['L'])) g_order_bad = 1;	/* format chosen by extension (compression suffix ignored) or -L */
	if (nondet_bool()) { g_read_null = 1; return 0; }
	the_p.qslp = &the_O; the_O.ncols = 0; the_O.nrows = 0; the_p.basis = 0;
	return &the_p;
}
int mpq_QSread_and_load_basis(mpq_QSdata *p, const char *f) { g_rb_calls++; g_rb_rv = nondet_bool() ? 0 : 1; if (g_solve_called) g_order_bad = 1; return g_rb_rv; }
QSbasis *mpq_QSget_basis(mpq_QSdata *p) { QSbasis *b = malloc(sizeof *b); if (b) { b->nstruct = 0; b->nrows = 0; b->cstat = 0; b->rstat = 0; } return b; }
void mpq_QSfree_basis(QSbasis *b) { if (b) free(b); }
int mpq_QSset_param(mpq_QSdata *p, int w, int v) { int r = nondet_bool() ? 0 : 1; if (r) g_setparam_rv = 1; return r; }
int QSexact_solver(mpq_QSdata *p, mpq_t *const x, mpq_t *const y, QSbasis *const b, int algo, int *status)
{ g_solve_called++; *status = nondet_int(); g_status = *status; g_solve_rv = nondet_bool() ? 0 : 1; return g_solve_rv; }
EGioFile_t *EGioOpen(const char *path, const char *mode) { g_open_calls++; g_open_name_ok = (path[0] == 'o' && path[1] == '.') && mode[0] == 'w'; if (!g_solve_called) g_order_bad = 1; return &the_file; }
int EGioPrintf(EGioFile_t *f, const char *format, ...)
{
	g_lines++;
	/* "status = OPTIMAL" / "INFEASIBLE" / "UNBOUNDED" / "UNDEFINED": told apart by the characters at offsets 9 and 11 */
	g_line = (format[0] != 's' || format[7] != '=') ? -2 : format[9] == 'O' ? QS_LP_OPTIMAL : format[9] == 'I' ? QS_LP_INFEASIBLE :
	         (format[9] == 'U' && format[11] == 'B') ? QS_LP_UNBOUNDED : (format[9] == 'U' && format[11] == 'D') ? -1 : -2;
	if (f != &the_file || g_close_calls) g_order_bad = 1;
	return 0;
}
int QSexact_print_sol(mpq_QSdata *p, EGioFile_t *f) { g_print_calls++; if (g_lines != 1 || g_close_calls || f != &the_file) g_order_bad = 1; g_print_rv = nondet_bool() ? 0 : 1; return g_print_rv; }
int EGioClose(EGioFile_t *f) { g_close_calls++; return 0; }
int mpq_QSwrite_basis(mpq_QSdata *p, QSbasis *B, const char *fn)
{ g_wb_calls++; g_wb_ok = (B == 0) && fn == a_bas; g_wb_after_solve = g_solve_called; g_wb_rv = (p == 0 || nondet_bool()) ? 1 : 0; return g_wb_rv; }	/* qsopt.c: a NULL problem is rejected */
void mpq_QSfree_prob(mpq_QSdata *p) { g_free_prob++; }

void harness(void)
{
	char *av[8];
	int ac = 2 + (int) (nondet_uint() % 6u), i, rv;
	g_kind = (int) (nondet_uint() % 6u); g_expect_lp = (g_kind == 0 || g_kind == 1 || g_kind == 3);
	a_file[0] = 'p'; a_file[1] = 0;
	av[0] = a_prog; for (i = 1; i < 8; i++) av[i] = a_file;
	rv = main(ac, av);
	ASSERT(g_read_called <= 1 && g_solve_called <= 1, "C19: the problem is read and solved at most once");
	if (g_read_called && g_read_null) ASSERT(rv != 0 && g_solve_called == 0 && g_open_calls == 0, "C19: an unreadable or malformed problem file gives a non-zero exit value, no solve and no solution file");
	if (g_solve_called && g_solve_rv != 0) ASSERT(g_open_calls == 0, "C19: no solution file is produced when the solver failed");
	if (g_solve_called && g_solve_rv == 0 && opt_given['O']) {
		ASSERT(g_open_calls == 1 && g_open_name_ok, "C19: the solution file is opened for writing under the name given with -O");
		ASSERT(g_lines == 1 && g_line == (g_status == QS_LP_OPTIMAL ? QS_LP_OPTIMAL : g_status == QS_LP_INFEASIBLE ? QS_LP_INFEASIBLE : g_status == QS_LP_UNBOUNDED ? QS_LP_UNBOUNDED : -1),
			"C19: the status line of the solution file names exactly the status the solver returned");
		ASSERT(g_print_calls == (g_status == QS_LP_OPTIMAL ? 1 : 0), "C19: the solution body is printed iff the status is OPTIMAL");
		if (g_print_calls && g_print_rv != 0) ASSERT(rv != 0 || g_wb_calls, "C19: a failure to print the solution makes the run fail");
		if (rv == 0) ASSERT(g_close_calls == 1, "C19: a successful run closes the solution stream exactly once (whatever the status)");
	}
	if (!opt_given['O']) ASSERT(g_open_calls == 0 && g_lines == 0, "C19: no solution file without -O");
	if (g_wb_calls) ASSERT(opt_given['b'] && g_wb_ok && g_wb_calls == 1, "C19: -b writes the problem's own basis under the given name, once");
	if (opt_given['b'] && g_solve_called && g_solve_rv == 0) ASSERT(g_wb_calls == 1 && g_wb_after_solve, "C19: with -b the basis is written after a successful solve");
	ASSERT(!g_order_bad, "C19: steps happen in the documented order (read with the format chosen by extension or -L, load basis, solve, open, status line, body, close)");
	if (rv == 0) ASSERT(!g_read_null && g_read_called == 1 && g_solve_called == 1, "C19: exit value 0 only after the problem was read and solved");
	COVER_MUST(rv == 0 && opt_given['O'] && g_status == QS_LP_OPTIMAL, "optimal_written");
	COVER_MUST(rv == 0 && opt_given['O'] && g_status == QS_LP_INFEASIBLE && opt_given['b'], "infeasible_written");
	REACH_END();
}
QSV_MAIN(harness)
