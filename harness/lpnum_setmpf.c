/* C18: mpq_EGlpNumSet_mpf (eg_lpnum.c, REAL) -- the conversion of a floating-point number of the precision ladder into a
 * rational -- for the input ZERO (every zero entry of every solution vector copied from the mpf solver takes this path):
 * the result is 0/1 and every temporary the function initialises is cleared again (GMP model TOKENS: mpf and mpz / mpq
 * numbers own a heap token; memory-leak check).  The non-zero path (continued fractions) is not part of this group. */
#include "qsv.h"
#include "qs_config.h"
#include "eg_lpnum.h"
extern int qsv_gmp_live;
void harness(void)
{
	mpq_t var; mpf_t flt; int live0;
	qsv_init_globals();
	mpq_init(var); mpq_set_si(var, 7, 1UL); mpf_init(flt);	/* flt == 0 */
	live0 = qsv_gmp_live;
	mpq_EGlpNumSet_mpf(var, flt);
	ASSERT(NUMV(var) == 0 && DENV(var) == 1, "C16/C10: zero converts to 0/1");
	ASSERT(qsv_gmp_live == live0, "C18: converting a zero leaves no temporary number behind");
	mpq_clear(var); mpf_clear(flt);
	REACH_END();
}
QSV_MAIN(harness)
