/* C11 / C18: the section state machine of the MPS reader -- ILLread_mps, read_mps_section, check_section_order,
 * read_mps_line_in_section, read_mps_name / refrow / objnamesense / objsense / objname (mps.c, REAL) with the REAL
 * ILLmps_state_init / ILLmps_set_section / empty_key / empty_field (read_mps.c) -- on EVERY sequence of at most NLINES
 * lines, each a section header (any of the ten keywords or an unknown word, with or without a field) or a data line.
 * The line scanner, the data-line handlers (add_row, add_col, add_rhs, add_ranges, add_bounds; decided in mps/line_*,
 * rawlp/*) and the raw-problem functions are ghost-recording stubs with arbitrary results.
 *   - sizes are frozen: the RHS / RANGES arrays are sized when their header is accepted and the BOUNDS arrays when theirs
 *     is; NO row is added after an accepted RHS or RANGES header and NO column after an accepted BOUNDS header (a repeated
 *     ROWS / COLUMNS section must not be processed), and a data line is handed to a handler only in the FIRST occurrence
 *     of its section
 *   - the RHS / RANGES / BOUNDS arrays are allocated at most once
 *   - whatever the file looks like, nothing the reader allocated for its own bookkeeping is left behind (the objective
 *     name of an OBJNAME section), and every pointer / bounds obligation holds.
 * BOUND: NLINES = 4 lines. */
#include <string.h>
#include <stdarg.h>
#include "qsv.h"
#include "qs_config.h"
#include "rawlp_mpq.h"
#include "read_mps_mpq.h"
#include "mps_mpq.h"
#ifndef NLINES
#define NLINES 4
#endif
static int line_no, rows_frozen, cols_frozen, n_init_rhs, n_init_ranges, n_init_bounds, handler_calls, errors;
static const char *keys[12] = { "NAME", "OBJSENSE", "OBJNAME", "ROWS", "COLUMNS", "RHS", "RANGES", "BOUNDS", "REFROW", "ENDATA", "JUNK", "" };
static const char *flds[4] = { "", "MAX", "f", "MIN" };
int mpq_ILLmps_next_line(mpq_ILLread_mps_state *st)
{	/* the next line of the file: an arbitrary key (or none: a data line) and an arbitrary first field */
	int k, f, i;
	if (line_no >= NLINES || nondet_bool()) return 1;
	line_no++;
	k = nondet_int(); f = nondet_int(); ASSUME(0 <= k && k <= 11 && 0 <= f && f <= 3);
	if (k == 11) ASSUME(f != 0);	/* a line has at least one token */
	for (i = 0; i < 9; i++) { st->key[i] = keys[k][i]; if (keys[k][i] == 0) break; }
	for (i = 0; i < 4; i++) { st->field[i] = flds[f][i]; if (flds[f][i] == 0) break; }
	st->line_num++;
	return 0;
}
int mpq_ILLmps_error(mpq_ILLread_mps_state *st, const char *format, ...) { errors++; return 1; }
void mpq_ILLmps_warn(mpq_ILLread_mps_state *st, const char *format, ...) { }
void mpq_ILLmps_check_end_of_line(mpq_ILLread_mps_state *st) { }
int ILLsymboltab_create(ILLsymboltab *h, int init_size) { return nondet_bool(); }
int mpq_ILLraw_init_rhs(mpq_rawlpdata *lp) { n_init_rhs++; rows_frozen = 1; return nondet_bool(); }
int mpq_ILLraw_init_ranges(mpq_rawlpdata *lp) { n_init_ranges++; rows_frozen = 1; return nondet_bool(); }
int mpq_ILLraw_init_bounds(mpq_rawlpdata *lp) { n_init_bounds++; cols_frozen = 1; return nondet_bool(); }
static int handler(mpq_ILLread_mps_state *g_st, int sec)
{
	handler_calls++;
	ASSERT(g_st->active == sec && g_st->section[sec] == 1, "C11: a data line is handed to its section's handler only in the first occurrence of that section");
	return nondet_bool();
}
int __CPROVER_file_local_mps_mpq_c_add_row(mpq_ILLread_mps_state *st, mpq_rawlpdata *lp)
{ ASSERT(!rows_frozen, "C11: no row is added after an RHS or RANGES header was accepted (their arrays are sized at the header)"); return handler(st, ILL_MPS_ROWS); }
int __CPROVER_file_local_mps_mpq_c_add_col(mpq_ILLread_mps_state *st, mpq_rawlpdata *lp)
{ ASSERT(!cols_frozen, "C11: no column is added after a BOUNDS header was accepted (its arrays are sized at the header)"); return handler(st, ILL_MPS_COLS); }
int __CPROVER_file_local_mps_mpq_c_add_rhs(mpq_ILLread_mps_state *st, mpq_rawlpdata *lp) { return handler(st, ILL_MPS_RHS); }
int __CPROVER_file_local_mps_mpq_c_add_ranges(mpq_ILLread_mps_state *st, mpq_rawlpdata *lp) { return handler(st, ILL_MPS_RANGES); }
int __CPROVER_file_local_mps_mpq_c_add_bounds(mpq_ILLread_mps_state *st, mpq_rawlpdata *lp) { return handler(st, ILL_MPS_BOUNDS); }
int __CPROVER_file_local_mps_mpq_c_mps_fill_in(mpq_rawlpdata *lp, const char *obj) { return nondet_bool(); }
void harness(void)
{
	static mpq_rawlpdata raw; mpq_rawlpdata *lp = &raw;
	static mpq_qsline_reader rd;
	int rv;
	qsv_init_globals();
	lp->name = 0; lp->refrow = 0; lp->objsense = 1;
	rv = mpq_ILLread_mps(&rd, "f", lp);
	ASSERT(n_init_rhs <= 1 && n_init_ranges <= 1 && n_init_bounds <= 1, "C11/C18: the RHS, RANGES and BOUNDS arrays are allocated at most once per file");
	COVER_MUST(handler_calls >= 2, "two_data_lines_processed");
	COVER_MUST(errors >= 1 && rv != 0, "rejected_file");
	free(lp->name); free(lp->refrow);	/* owned by the raw problem (released by ILLfree_rawlpdata, life/rawlp_free) */
	REACH_END();
}
QSV_MAIN(harness)
