/* C06 (model conformance) for the matrix edits of lib.c that RELOCATE entries, as bounded contract
 * checks against a dense reference model (DESIGN.md 4/C06):
 *   FN_chgcoef   mpq_ILLlib_chgcoef -> matrix_addcoef (overwrite / first entry / free slot / move to end)
 *   FN_getcoef   mpq_ILLlib_getcoef -> matrix_getcoef
 * The harness builds an ARBITRARY well-formed sparse matrix of tiny dimension (NC columns, NR rows): columns
 * in an arbitrary placement order, arbitrary counts and row sets, optional -1 holes after each column, empty
 * columns owning one dummy slot, an arbitrary free tail.  Alongside it keeps the dense matrix D.
 * Postcondition = representation invariant (wf) + the whole abstract view:
 *   wf   extents inside the used region and pairwise disjoint, rows in range and distinct per column,
 *        free tail [matsize-matfree, matsize) entirely -1, unowned slots -1, nzcount == stored entries
 *   view for EVERY (r,c): stored coefficient == D'[r][c]  (D' = D with the one edited entry)
 * BOUND: NR=2 rows, NC=3 columns (2 structural + 1 or the map arbitrary), matsize <= 14; loops fully unwound.
 * The realloc branch of matrix_addcoef (matfree too small) grows by EXTRA_MAT=1000 slots; it is covered
 * only in the thorough variant (REALLOC), excluded by the precondition otherwise.
 */
#include "lib_contracts.h"
struct qsv_ghost qsv_g;
int g_sinfo_freed;
void mpq_ILLlp_sinfo_free(mpq_ILLlp_sinfo *s) { g_sinfo_freed = 1; }
int g_rows_cleared;
void mpq_ILLlp_rows_clear(mpq_ILLlp_rows *r) { g_rows_cleared++; }
#ifndef NR
#define NR 2
#endif
#ifndef NC
#define NC 3
#endif
#define NS 2			/* structural columns (the API addresses these); the rest are other columns */
#define MAXSZ (NC * (NR + 2) + 4)
static int pick(int lo_, int hi_) { int v = (int) (nondet_uint() & 7u) + lo_; ASSUME(v <= hi_); return v; }
static int D[NR][NC];		/* dense reference: payload of coefficient (r, col), 0 = not stored */
static int S[NR][NC];		/* stored? */
static mpq_ILLlpdata *O;

static void build(void)
{
	int order[NC], j, k, pos = 0, r, i;
	mpq_ILLmatrix *A;
	O = qsv_alloc(sizeof *O);
	A = &O->A;
	O->nrows = NR; O->nstruct = NS; O->ncols = NC; O->rowsize = NR; O->colsize = NC; O->structsize = NS;
	O->rA = 0; O->sinfo = 0; O->nzcount = 0;
	O->structmap = qsv_alloc(sizeof(int) * NS);
	A->matrows = NR; A->matcols = NC; A->matcolsize = NC;
	A->matbeg = qsv_alloc(sizeof(int) * NC); A->matcnt = qsv_alloc(sizeof(int) * NC);
	A->matind = qsv_alloc(sizeof(int) * MAXSZ); A->matval = qsv_numarray(MAXSZ);
	/* structural index -> column: any injective map */
	for (j = 0; j < NS; j++) { O->structmap[j] = pick(0, NC - 1); for (k = 0; k < j; k++) ASSUME(O->structmap[k] != O->structmap[j]); }
	/* placement order: any permutation */
	for (j = 0; j < NC; j++) { order[j] = pick(0, NC - 1); for (k = 0; k < j; k++) ASSUME(order[k] != order[j]); }
	for (r = 0; r < NR; r++) for (j = 0; j < NC; j++) { D[r][j] = 0; S[r][j] = 0; }
	for (i = 0; i < MAXSZ; i++) { A->matind[i] = -1; qsv_setnum(A->matval[i], 0); }
	for (j = 0; j < NC; j++) {
		int col = order[j], cnt = pick(0, NR), hole;
		A->matbeg[col] = pos; A->matcnt[col] = cnt;
		if (cnt == 0) { A->matind[pos++] = 1; }
		for (k = 0; k < NR; k++) if (k < cnt) {
			int row = pick(0, NR - 1), v = qsv_nondet_payload();
			ASSUME(!S[row][col]);
			A->matind[pos] = row; qsv_setnum(A->matval[pos], v); pos++;
			D[row][col] = v; S[row][col] = 1; O->nzcount++;
		}
		hole = pick(0, 1); pos += hole;
	}
	{ int fr = pick(0, 4);
#ifndef REALLOC
	  (void) 0;
#endif
	  A->matsize = pos + fr; A->matfree = fr; }
}

/* representation invariant + view, checked over the whole (tiny) structure */
static void check(const char *when)
{
	mpq_ILLmatrix *A = &O->A;
	int j, k, r, used = A->matsize - A->matfree, owned[MAXSZ + 1024], nz = 0, i;
	ASSERT(0 <= A->matfree && A->matfree <= A->matsize && used >= 0, "C06 wf: 0 <= matfree <= matsize");
	for (i = 0; i < MAXSZ; i++) owned[i] = 0;
	for (j = 0; j < NC; j++) {
		int beg = A->matbeg[j], cnt = A->matcnt[j], ext = cnt > 0 ? cnt : 1;
		ASSERT(0 <= cnt && cnt <= NR && 0 <= beg && beg + ext <= used, "C06 wf: every column's extent lies inside the used region");
		for (k = 0; k < NR + 1; k++) if (k < ext && beg + k < MAXSZ) { ASSERT(!owned[beg + k], "C06 wf: column extents are pairwise disjoint"); owned[beg + k] = 1; }
		for (r = 0; r < NR; r++) {
			int found = 0, val = 0;
			for (k = 0; k < NR; k++) if (k < cnt && A->matind[beg + k] == r) { ASSERT(!found, "C06 wf: a row occurs at most once in a column"); found = 1; val = NUMV(A->matval[beg + k]); ASSERT(DENV(A->matval[beg + k]) == 1, "payload"); }
			ASSERT(found == S[r][j], "C06 view: exactly the coefficients of the reference model are stored");
			ASSERT(!found || val == D[r][j], "C06 view: every stored coefficient equals the reference model's");
			nz += found;
		}
		for (k = 0; k < NR; k++) if (k < cnt) ASSERT(0 <= A->matind[beg + k] && A->matind[beg + k] < NR, "C06 wf: row indices in range");
	}
	for (i = 0; i < MAXSZ; i++) if (i < A->matsize) {
		if (i >= used) ASSERT(A->matind[i] == -1, "C06 wf: the free tail [matsize-matfree, matsize) is unused (all -1): appends write there");
		else if (!owned[i]) ASSERT(A->matind[i] == -1, "C06 wf: slots no column owns are marked free (-1)");
		else ASSERT(A->matind[i] != -1, "C06 wf: an owned slot is never marked free");
	}
	ASSERT(O->nzcount == nz, "C06 view: the nonzero count equals the number of stored coefficients");
}

void harness(void)
{
	mpq_lpinfo *lp;
	int rv;
	qsv_init_globals();
	build();
	lp = qsv_mk_lpinfo(O);
#if defined(FN_chgcoef)
	{
		IN_INT(row); IN_INT(cidx); IN_INT(v);
		mpq_t coef;
		int col = -1, oldcnt = 0;
		ASSUME(-1 <= row && row <= NR && -1 <= cidx && cidx <= NS && -1000 < v && v < 1000);
		qsv_setnum(coef, v);
		if (0 <= cidx && cidx < NS) { col = O->structmap[cidx]; oldcnt = O->A.matcnt[col]; }
#ifndef REALLOC
		/* exclude the realloc branch (grows by EXTRA_MAT = 1000 slots): covered by the thorough variant */
		if (col >= 0 && 0 <= row && row < NR && !S[row][col] && oldcnt > 0 &&
		    !(O->A.matbeg[col] + oldcnt < O->A.matsize && O->A.matind[O->A.matbeg[col] + oldcnt] == -1))
			ASSUME(O->A.matfree > oldcnt + 2);
#endif
		{ IN_BOOL(had_rA); if (had_rA) O->rA = qsv_alloc(sizeof *O->rA);	/* a cached row view (problems from the file readers have one) */
		rv = mpq_ILLlib_chgcoef(lp, row, cidx, coef);
		if (rv == 0) ASSERT(O->rA == 0 && g_rows_cleared == (had_rA ? 1 : 0), "C05/C18: a coefficient change invalidates the cached row view: its arrays are cleared and the view is released, once"); }
		ASSERT((rv == 0) == (0 <= row && row < NR && 0 <= cidx && cidx < NS), "C07: accepted iff row and structural column index are in range");
		if (rv == 0) { if (!S[row][col]) { S[row][col] = 1; } D[row][col] = v; }
		check("after chgcoef");
		COVER_MUST(rv == 0 && oldcnt > 0 && O->A.matbeg[col] != 0 && O->A.matcnt[col] == oldcnt + 1, "new_entry");
	}
#elif defined(FN_getcoef)
	{
		IN_INT(row); IN_INT(cidx); IN_INT(old_v);
		mpq_t out;
		ASSUME(-1 <= row && row <= NR && -1 <= cidx && cidx <= NS);
		qsv_setnum(out, old_v);
		rv = mpq_ILLlib_getcoef(lp, row, cidx, &out);
		ASSERT((rv == 0) == (0 <= row && row < NR && 0 <= cidx && cidx < NS), "C07: accepted iff row and structural column index are in range");
		if (rv == 0) ASSERT(NUMV(out) == (S[row][O->structmap[cidx]] ? D[row][O->structmap[cidx]] : 0), "C06: the coefficient returned is the one the reference model holds (0 if none)");
		else ASSERT(NUMV(out) == old_v, "C07: output untouched on rejection");
		check("after getcoef");
	}
#else
#error "select FN_chgcoef or FN_getcoef"
#endif
	REACH_END();
}
QSV_MAIN(harness)
