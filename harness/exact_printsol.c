/* C19: QSexact_print_sol (exact.c, REAL): "for OPTIMAL it lists, by name and as exact fractions, precisely the non-zero
 * variable values, reduced costs, duals and slacks ... together with its value".
 * Fixed dimension 2 columns x 2 rows; the four accessors are stubs that hand out arbitrary small values (and may fail);
 * EGioPrintf is a stub that records, per section, which names were listed with which value string (the GMP model's
 * mpq_get_str codes the number in one character).
 * Contract: each section that is present lists entry i iff value[i] != 0, under the i-th column / row name, with the string
 * of exactly that value, in index order, after its own header; the objective value printed is the cached one. */
#include <stdarg.h>
#include <string.h>
#include "qsv.h"
#include "qs_config.h"
#include "QSopt_ex.h"
#define N 2
int __QS_SB_VERB;
static int pick(int lo_, int hi_) { int v = (int) (nondet_uint() & 7u) + lo_; ASSUME(v <= hi_); return v; }
static int val[4][N], fails[4], g_status, g_status_rv, g_objval, g_objval_rv;
static char cn0[] = "x", cn1[] = "y", rn0[] = "r", rn1[] = "s";
static char *colnames[N] = { cn0, cn1 }, *rownames[N] = { rn0, rn1 };
static int cur_sec = -1, listed[4][N], code[4][N], nlisted[4], out_of_order, g_value_code = -1, g_status_line = -1, bad_name;
int mpq_QSget_colcount(mpq_QSdata *p) { return N; }
int mpq_QSget_rowcount(mpq_QSdata *p) { return N; }
int mpq_QSget_status(mpq_QSdata *p, int *s) { *s = g_status; return g_status_rv; }
static int fill(int sec, mpq_t *a) { int i; if (fails[sec]) return 1; for (i = 0; i < N; i++) { a[i]->_mp_num._mp_size = val[sec][i]; a[i]->_mp_den._mp_size = 1; } return 0; }
int mpq_QSget_x_array(mpq_QSdata *p, mpq_t *x) { return fill(0, x); }
int mpq_QSget_rc_array(mpq_QSdata *p, mpq_t *x) { return fill(1, x); }
int mpq_QSget_pi_array(mpq_QSdata *p, mpq_t *x) { return fill(2, x); }
int mpq_QSget_slack_array(mpq_QSdata *p, mpq_t *x) { return fill(3, x); }
int mpq_QSget_objval(mpq_QSdata *p, mpq_t *v) { (*v)->_mp_num._mp_size = g_objval; (*v)->_mp_den._mp_size = 1; return g_objval_rv; }
int EGioPrintf(EGioFile_t *f, const char *format, ...)
{
	va_list ap;
	va_start(ap, format);
	if (format[0] == 's') { g_status_line = format[7]; if (format[7] == 'O') { char *s = va_arg(ap, char *); g_value_code = s[0]; } }
	else if (format[0] == 'V') cur_sec = 0;
	else if (format[0] == 'R') cur_sec = 1;
	else if (format[0] == 'P') cur_sec = 2;
	else if (format[0] == 'S') cur_sec = 3;
	else if (format[0] == '%') {
		char *name = va_arg(ap, char *), *str = va_arg(ap, char *);
		int i = (cur_sec <= 1) ? (name == colnames[0] ? 0 : name == colnames[1] ? 1 : -1) : (name == rownames[0] ? 0 : name == rownames[1] ? 1 : -1);
		if (cur_sec < 0 || i < 0) bad_name = 1;
		else { if (listed[cur_sec][i] || (i == 0 && listed[cur_sec][1])) out_of_order = 1; listed[cur_sec][i] = 1; code[cur_sec][i] = str[0]; nlisted[cur_sec]++; }
	}
	va_end(ap);
	return 0;
}
void harness(void)
{
	mpq_QSdata p; mpq_ILLlpdata O; EGioFile_t *f = 0;
	int s, i, rv;
	qsv_init_globals();
	p.qslp = &O; O.colnames = colnames; O.rownames = rownames;
	for (s = 0; s < 4; s++) { fails[s] = nondet_bool(); for (i = 0; i < N; i++) val[s][i] = pick(-2, 2); }
	g_status = QS_LP_OPTIMAL; g_status_rv = nondet_bool() ? 0 : 1; g_objval = pick(-2, 2); g_objval_rv = nondet_bool() ? 0 : 1;
	rv = QSexact_print_sol(&p, f);
	if (rv == 0) {
		ASSERT(!bad_name, "C19: every listed entry carries the name of a column (VARS, REDUCED COST) or row (PI, SLACK) of the problem, inside a section");
		ASSERT(!out_of_order, "C19: entries are listed once, in index order");
		ASSERT(g_status_line == 'O' && g_value_code == 64 + (g_objval & 31), "C19: the OPTIMAL status line carries the objective value the library reports");
		for (s = 0; s < 4; s++) for (i = 0; i < N; i++) {
			if (fails[s]) ASSERT(!listed[s][i], "C19: a section whose values are unavailable lists nothing");
			else {
				ASSERT(listed[s][i] == (val[s][i] != 0), "C19: each section lists precisely the non-zero entries (positive and negative)");
				if (val[s][i] != 0) ASSERT(code[s][i] == 64 + (val[s][i] & 31), "C19: the value printed for an entry is that entry's value");
			}
		}
	} else {
		ASSERT(g_status_rv != 0 || g_objval_rv != 0, "C19: printing fails only if the library could not report status or value");
	}
	COVER_MUST(rv == 0 && !fails[0] && val[0][0] < 0, "negative_value_listed");
	REACH_END();
}
QSV_MAIN(harness)
