/* C16, reduced-precision copies: QScopy_prob_mpq_dbl / QScopy_prob_mpq_mpf (exact.c, REAL, with the real
 * QScopy_array_mpq_dbl / QScopy_array_mpq_mpf macros of exact.h).  Fixed dimension 2 columns x 2 rows.
 * The rational problem is seen through stubs of the query API (they hand out the reference data); the target problem
 * is seen through ghost-recording stubs of the construction API.
 * Contract: the k-th new column gets (cv(obj[k]), cv(lower[k]), cv(upper[k])) -- the function recycles one array for
 * bounds and objective, which is where a swap would hide; the rows are added in one block with the SAME structure arrays
 * (counts, starts, column indices, senses) and entrywise converted coefficients, right-hand sides and ranges (every row,
 * row 0 included); the eight parameters are transferred.  cv maps +-infinity to the target's infinity and every other
 * value through GMP's conversion (mpq_get_d / mpf_set_q: here a payload copy; their accuracy is GMP's contract). */
#include "qsv.h"
#include "qs_config.h"
#include "QSopt_ex.h"
#define NC 2
#define NR 2
#define NZ 3
int __QS_SB_VERB;
/* the conversion macros size their result from the size header of the source array; CBMC does not propagate that constant
 * through the heap, and a calloc of symbolic size is an unbounded byte array: every array here has at most 3 entries */
void *calloc(size_t n, size_t sz) { void *r; __CPROVER_assume(n * sz <= 128); r = malloc(128); if (r) __CPROVER_array_set((char *) r, (char) 0); return r; }
static int objv[NC], lov[NC], upv[NC], rhsv[NR], rngv[NR], valv[NZ], cntv[NR] = { 2, 1 }, begv[NR] = { 0, 2 }, indv[NZ] = { 0, 1, 1 }, g_objsense, g_fail;
static char sensev[NR];
static int iparam[5], nparam[3];
static int pick(int lo_, int hi_) { int v = (int) (nondet_uint() & 7u) + lo_; ASSUME(v <= hi_); return v; }
static int pickv(void) { int v = pick(0, 6); return v == 0 ? -QSV_INF : v == 6 ? QSV_INF : v - 3; }	/* -inf, -2..2, +inf */
#ifdef TO_MPF
#define T_(x) mpf_##x
typedef mpf_t tnum;
mpf_t mpf_ILL_MAXDOUBLE, mpf_ILL_MINDOUBLE;
#define TVAL(x) ((x)->_mp_size)
#define T_INF QSV_INF
#define TGET(a) TVAL(a)
#else
#define T_(x) dbl_##x
typedef double tnum;
double dbl_ILL_MAXDOUBLE = 1e30, dbl_ILL_MINDOUBLE = -1e30;
#define TGET(a) ((a) == 1e30 ? QSV_INF : (a) == -1e30 ? -QSV_INF : (int) (a))
#endif
/* ---- the rational problem (query side) ---- */
int mpq_QSget_colcount(mpq_QSdata *p) { return NC; }
int mpq_QSget_rowcount(mpq_QSdata *p) { return NR; }
int mpq_QSget_objsense(mpq_QSdata *p, int *s) { *s = g_objsense; return 0; }
static void setq(mpq_t q, int v) { q->_mp_num._mp_size = v; q->_mp_den._mp_size = 1; }
int mpq_QSget_bounds(mpq_QSdata *p, mpq_t *lo, mpq_t *up) { int i; for (i = 0; i < NC; i++) { setq(lo[i], lov[i]); setq(up[i], upv[i]); } return 0; }
int mpq_QSget_obj(mpq_QSdata *p, mpq_t *obj) { int i; for (i = 0; i < NC; i++) setq(obj[i], objv[i]); return 0; }
static int *g_cnt, *g_beg, *g_ind; static char *g_sense;
int mpq_QSget_ranged_rows(mpq_QSdata *p, int **rowcnt, int **rowbeg, int **rowind, mpq_t **rowval, mpq_t **rhs, char **sense, mpq_t **range, char ***names)
{
	int i;
	g_cnt = malloc(sizeof(int) * NR); g_beg = malloc(sizeof(int) * NR); g_ind = malloc(sizeof(int) * NZ); g_sense = malloc(NR);
	__CPROVER_assume(g_cnt && g_beg && g_ind && g_sense);
	*rowval = qsv_numarray(NZ); *rhs = qsv_numarray(NR); *range = qsv_numarray(NR);
	for (i = 0; i < NR; i++) { g_cnt[i] = cntv[i]; g_beg[i] = begv[i]; g_sense[i] = sensev[i]; setq((*rhs)[i], rhsv[i]); setq((*range)[i], rngv[i]); }
	for (i = 0; i < NZ; i++) { g_ind[i] = indv[i]; setq((*rowval)[i], valv[i]); }
	*rowcnt = g_cnt; *rowbeg = g_beg; *rowind = g_ind; *sense = g_sense;
	return 0;
}
int mpq_QSget_param(mpq_QSdata *p, int w, int *v) { *v = w == QS_PARAM_PRIMAL_PRICING ? iparam[0] : w == QS_PARAM_DUAL_PRICING ? iparam[1] : w == QS_PARAM_SIMPLEX_DISPLAY ? iparam[2] : w == QS_PARAM_SIMPLEX_MAX_ITERATIONS ? iparam[3] : w == QS_PARAM_SIMPLEX_SCALING ? iparam[4] : -99; return 0; }
int mpq_QSget_param_EGlpNum(mpq_QSdata *p, int w, mpq_t *v) { setq(*v, w == QS_PARAM_SIMPLEX_MAX_TIME ? nparam[0] : w == QS_PARAM_OBJULIM ? nparam[1] : w == QS_PARAM_OBJLLIM ? nparam[2] : -99); return 0; }
/* ---- the target problem (construction side, ghost recording) ---- */
static int t_created, t_objsense, t_ncols, t_obj[NC], t_lo[NC], t_up[NC], t_rows_calls, t_rows_ok, t_rhs[NR], t_rng[NR], t_val[NZ], t_ipar[5], t_npar[3], t_ipar_set[5], t_npar_set[3];
static T_(QSdata) the_p2;
T_(QSdata) *T_(QScreate_prob)(const char *name, int objsense) { t_created++; t_objsense = objsense; return &the_p2; }
#ifdef TO_MPF
int mpf_QSnew_col(mpf_QSdata *p, const mpf_t obj, const mpf_t lower, const mpf_t upper, const char *name)
#else
int dbl_QSnew_col(dbl_QSdata *p, const double obj, const double lower, const double upper, const char *name)
#endif
{ if (t_ncols < NC) { t_obj[t_ncols] = TGET(obj); t_lo[t_ncols] = TGET(lower); t_up[t_ncols] = TGET(upper); } t_ncols++; return 0; }
int T_(QSadd_ranged_rows)(T_(QSdata) *p, int num, int *rmatcnt, int *rmatbeg, int *rmatind, const tnum *rmatval, const tnum *rhs, char *sense, const tnum *range, const char **names)
{
	int i; t_rows_calls++;
	t_rows_ok = (p == &the_p2 && num == NR && rmatcnt == g_cnt && rmatbeg == g_beg && rmatind == g_ind && sense == g_sense && t_ncols == NC && rmatval != 0 && rhs != 0 && range != 0);
	if (t_rows_ok) { for (i = 0; i < NR; i++) { t_rhs[i] = TGET(rhs[i]); t_rng[i] = TGET(range[i]); } for (i = 0; i < NZ; i++) t_val[i] = TGET(rmatval[i]); }
	return 0;
}
int T_(QSset_param)(T_(QSdata) *p, int w, int v) { int k = w == QS_PARAM_PRIMAL_PRICING ? 0 : w == QS_PARAM_DUAL_PRICING ? 1 : w == QS_PARAM_SIMPLEX_DISPLAY ? 2 : w == QS_PARAM_SIMPLEX_MAX_ITERATIONS ? 3 : w == QS_PARAM_SIMPLEX_SCALING ? 4 : -1; if (k >= 0) { t_ipar[k] = v; t_ipar_set[k]++; } return 0; }
#ifdef TO_MPF
int mpf_QSset_param_EGlpNum(mpf_QSdata *p, int w, mpf_t v)
#else
int dbl_QSset_param_EGlpNum(dbl_QSdata *p, int w, double v)
#endif
{ int k = w == QS_PARAM_SIMPLEX_MAX_TIME ? 0 : w == QS_PARAM_OBJULIM ? 1 : w == QS_PARAM_OBJLLIM ? 2 : -1; if (k >= 0) { t_npar[k] = TGET(v); t_npar_set[k]++; } return 0; }
void T_(QSfree_prob)(T_(QSdata) *p) { g_fail = 1; }
void harness(void)
{
	mpq_QSdata p; T_(QSdata) *p2; int i;
	qsv_init_globals();
#ifdef TO_MPF
	mpf_ILL_MAXDOUBLE->_mp_size = QSV_INF; mpf_ILL_MINDOUBLE->_mp_size = -QSV_INF;
#endif
	g_objsense = nondet_bool() ? QS_MIN : QS_MAX;
	for (i = 0; i < NC; i++) { objv[i] = pickv(); lov[i] = pickv(); upv[i] = pickv(); }
	for (i = 0; i < NR; i++) { rhsv[i] = pickv(); rngv[i] = pick(0, 4); sensev[i] = "LGER"[pick(0, 3)]; }
	for (i = 0; i < NZ; i++) valv[i] = pick(0, 4) - 2;
	for (i = 0; i < 5; i++) iparam[i] = pick(0, 7);
	for (i = 0; i < 3; i++) nparam[i] = pickv();
#ifdef TO_MPF
	p2 = QScopy_prob_mpq_mpf(&p, "c");
#else
	p2 = QScopy_prob_mpq_dbl(&p, "c");
#endif
	ASSERT(p2 == &the_p2 && !g_fail && t_created == 1 && t_objsense == g_objsense, "C16: the reduced-precision copy is created with the problem's objective sense");
	ASSERT(t_ncols == NC, "C16: one column per column of the rational problem");
	for (i = 0; i < NC; i++) ASSERT(t_obj[i] == objv[i] && t_lo[i] == lov[i] && t_up[i] == upv[i], "C16: column k of the copy gets the converted objective coefficient, lower and upper bound of column k (infinite bounds -> the target's infinity)");
	ASSERT(t_rows_calls == 1 && t_rows_ok, "C16: the rows are added in one block with identical structure (counts, starts, column indices, senses), after the columns");
	for (i = 0; i < NR; i++) ASSERT(t_rhs[i] == rhsv[i] && t_rng[i] == rngv[i], "C16: every row of the copy (row 0 included) gets the converted right-hand side and range");
	for (i = 0; i < NZ; i++) ASSERT(t_val[i] == valv[i], "C16: every coefficient of the copy is the converted coefficient");
	for (i = 0; i < 5; i++) ASSERT(t_ipar_set[i] == 1 && t_ipar[i] == iparam[i], "C16: pricing rules, display, iteration limit and scaling are transferred");
	for (i = 0; i < 3; i++) ASSERT(t_npar_set[i] == 1 && t_npar[i] == nparam[i], "C16: time limit and objective limits are transferred");
	REACH_END();
}
QSV_MAIN(harness)
