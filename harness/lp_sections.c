/* C10 / C11 / C18: the section sequencer of the LP reader -- the REAL ILLread_lp, read_problem_name, read_minmax (lp.c)
 * and the REAL keyword tests ILLread_lp_state_keyword / ILLtest_lp_state_keyword / bad_keyword (read_lp.c) -- for every
 * sequence of section words the file may present (PROBLEM, the objective sense, then after the constraints any of BOUNDS,
 * Bound, INTEGER, int, END, an unknown word, or the end of the file; at the beginning of a line or not).  The section
 * bodies (objective, constraints, bounds, integer list; decided in lp/constraint_expr, lp/one_constraint, lp/bounds) and
 * the fill-in steps are ghost-recording stubs with arbitrary results.
 *   - sections are read in the order  [problem name] sense objective constraints [bounds] [integers] END  and a section body
 *     is entered only for its own keyword (any letter case) standing at the beginning of a line
 *   - the file is accepted only if every section that was entered succeeded, the problem has at least one row and one
 *     column, and the word after the last section is END; only then row names and bounds are completed, both of them
 *   - the reader's own temporary number (the bound value of its state) is released exactly once on every path. */
#include <string.h>
#include <stdarg.h>
#include "qsv.h"
#include "qs_config.h"
#include "rawlp_mpq.h"
#include "read_lp_mpq.h"
#include "lp_mpq.h"
extern int qsv_gmp_live;
static int lc(int c) { c &= 0xff; return (c >= 'A' && c <= 'Z') ? c + 32 : c; }
int strcasecmp(const char *a, const char *b) { int i; for (i = 0; i < 10; i++) { int x = lc(a[i]), y = lc(b[i]); if (x != y) return x - y; if (x == 0) return 0; } return 0; }
static const char *words[8] = { "BOUNDS", "Bound", "INTEGER", "int", "END", "general", "MAX", "PROBLEM" };
static int seq, t_obj, t_con, t_bnd, t_int, t_rn, t_fb, r_obj, r_con, r_bnd, r_int, r_rn, r_fb, errors;
static int w_at_bnd = -1, fc_at_bnd, eof_at_bnd, w_at_int = -1, fc_at_int, eof_at_int, cur_w = -1;
static int fc_now, eof_now, w_after_con = -1, fc_after_con, eof_after_con, w_after_bnd = -1, fc_after_bnd, eof_after_bnd;
static void next_word(mpq_ILLread_lp_state *st)
{	int k = nondet_int(), i; ASSUME(0 <= k && k <= 7);
	for (i = 0; i < 9; i++) { st->field[i] = words[k][i]; if (words[k][i] == 0) break; }
	st->fieldOnFirstCol = nondet_bool(); st->eof = nondet_bool(); cur_w = k; }
int mpq_ILLread_lp_state_init(mpq_ILLread_lp_state *st, mpq_qsline_reader *file, const char *fname, int inter)
{ st->eof = 0; st->file_name = fname; st->file = file; st->line_num = 0; st->p = st->line; st->line[0] = 0; st->field[0] = 0; st->fieldOnFirstCol = 0; mpq_init(st->bound_val); return 0; }
int mpq_ILLread_lp_state_next_field(mpq_ILLread_lp_state *st) { if (nondet_bool()) return 1; next_word(st); return 0; }
void mpq_ILLread_lp_state_prev_field(mpq_ILLread_lp_state *st) { }
void mpq_ILLinit_rawlpdata(mpq_rawlpdata *lp, mpq_qserror_collector *c) { lp->name = 0; lp->ncols = 0; lp->nrows = 0; lp->objsense = 1; }
int ILLsymboltab_create(ILLsymboltab *h, int init_size) { return nondet_bool(); }
int mpq_ILLlp_error(mpq_ILLread_lp_state *st, const char *format, ...) { errors++; return 1; }
void mpq_ILLlp_warn(mpq_ILLread_lp_state *st, const char *format, ...) { }
int __CPROVER_file_local_lp_mpq_c_read_objective(mpq_ILLread_lp_state *st, mpq_rawlpdata *lp) { t_obj = ++seq; r_obj = nondet_bool(); return r_obj; }
int __CPROVER_file_local_lp_mpq_c_read_constraints(mpq_ILLread_lp_state *st, mpq_rawlpdata *lp, int allowNew)
{ t_con = ++seq; r_con = nondet_bool(); lp->ncols = nondet_bool(); lp->nrows = nondet_bool(); next_word(st); w_after_con = cur_w; fc_after_con = st->fieldOnFirstCol; eof_after_con = st->eof; return r_con; }
int __CPROVER_file_local_lp_mpq_c_read_bounds(mpq_ILLread_lp_state *st, mpq_rawlpdata *lp)
{ t_bnd = ++seq; w_at_bnd = cur_w; fc_at_bnd = st->fieldOnFirstCol; eof_at_bnd = st->eof; r_bnd = nondet_bool(); next_word(st); w_after_bnd = cur_w; fc_after_bnd = st->fieldOnFirstCol; eof_after_bnd = st->eof; return r_bnd; }
int __CPROVER_file_local_lp_mpq_c_read_integer(mpq_ILLread_lp_state *st, mpq_rawlpdata *lp)
{ t_int = ++seq; w_at_int = cur_w; fc_at_int = st->fieldOnFirstCol; eof_at_int = st->eof; r_int = nondet_bool(); next_word(st); return r_int; }
int mpq_ILLraw_fill_in_rownames(mpq_rawlpdata *lp) { t_rn = ++seq; r_rn = nondet_bool(); return r_rn; }
int mpq_ILLraw_fill_in_bounds(mpq_rawlpdata *lp) { t_fb = ++seq; r_fb = nondet_bool(); return r_fb; }
/* the real keyword test is wrapped to record the word the decision was taken on */
int mpq_ILLread_lp_state_keyword(mpq_ILLread_lp_state *st, const char *kwd[]);
void harness(void)
{
	static mpq_rawlpdata raw; static mpq_qsline_reader rd; int rv, live0;
	qsv_init_globals();
	rd.error_collector = 0;
	live0 = qsv_gmp_live;
	rv = mpq_ILLread_lp(&rd, "f", &raw);
	ASSERT(qsv_gmp_live == live0, "C18: the reader's own temporary number is released exactly once on every path");
	ASSERT(!(t_con && !(t_obj && r_obj == 0 && t_obj < t_con)), "C10: the constraints are read after a successfully read objective");
	ASSERT(!(t_bnd && !(t_con && r_con == 0 && t_con < t_bnd)) && !(t_int && !(t_con && r_con == 0 && t_con < t_int && (!t_bnd || (t_bnd < t_int && r_bnd == 0)))), "C10: bounds come after the constraints, the integer list after the bounds, each only after the sections before it succeeded");
	if (t_bnd) ASSERT((w_at_bnd == 0 || w_at_bnd == 1) && fc_at_bnd && !eof_at_bnd, "C10: the bounds section is entered only for BOUNDS / BOUND (any letter case) at the beginning of a line");
	if (t_int) ASSERT((w_at_int == 2 || w_at_int == 3) && fc_at_int && !eof_at_int, "C10: the integer section is entered only for INTEGER / INT (any letter case) at the beginning of a line");
	if (t_con && r_con == 0 && raw.ncols > 0 && raw.nrows > 0) {
		if ((w_after_con == 0 || w_after_con == 1) && fc_after_con && !eof_after_con) ASSERT(t_bnd, "C10: BOUNDS / Bound after the constraints opens the bounds section");
		if (!t_bnd && (w_after_con == 2 || w_after_con == 3) && fc_after_con && !eof_after_con) ASSERT(t_int, "C10: INTEGER / int after the constraints opens the integer section");
		if (t_bnd && r_bnd == 0 && (w_after_bnd == 2 || w_after_bnd == 3) && fc_after_bnd && !eof_after_bnd) ASSERT(t_int, "C10: INTEGER / int after the bounds opens the integer section");
	}
	if (rv == 0) {
		ASSERT(t_obj && t_con && r_obj == 0 && r_con == 0 && raw.ncols > 0 && raw.nrows > 0 && (!t_bnd || r_bnd == 0) && (!t_int || r_int == 0), "C11: accepted only if every section entered succeeded and there is at least one row and one column");
		ASSERT(cur_w == 4, "C10/C11: accepted only if the word after the last section is END");
		ASSERT(t_rn && r_rn == 0 && t_fb && r_fb == 0 && t_rn < t_fb, "C10: on acceptance the row names and then the bounds are completed, both successfully");
	} else ASSERT(!t_rn || r_rn != 0 || (t_fb && r_fb != 0), "C11: no completion step succeeds for a rejected file unless it is the one that failed");
	COVER_MUST(rv == 0 && t_bnd && t_int, "accepted_with_bounds_and_integers");
	COVER_MUST(rv != 0 && t_con && r_con == 0 && errors > 0, "rejected_after_constraints");
	free(raw.name);
	REACH_END();
}
QSV_MAIN(harness)
