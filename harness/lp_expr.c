/* C10 "omitted coefficients are 1", signs / C18 / C11: the REAL ILLread_constraint_expr with the REAL add_var (lp.c) on
 * every token sequence of at most NT terms: each term = optional sign, optional coefficient, optional variable name
 * (unknown or known).  The scanner functions (sign / possible_coef / next_var), the symbol table and the raw-problem
 * adders are ghost-recording stubs.
 *   C10  every (sign, coefficient, variable) term that was read is handed to the raw problem as  sign * coefficient  for that
 *        variable and this row -- coefficient 1 when omitted, sign + when omitted -- in order of reading
 *   C11  a coefficient that is followed by no variable is an error (unless nothing was read at all); an unknown variable
 *        is an error where new variables are not allowed
 *   C18  whatever the outcome, no temporary number is left behind (GMP model TOKENS)
 * EXACT integer arithmetic.  BOUND: NT = 3 terms, values in -3..3. */
#include <string.h>
#include <stdarg.h>
#include "qsv.h"
#include "qs_config.h"
#include "rawlp_mpq.h"
#include "read_lp_mpq.h"
#include "lp_mpq.h"
#ifndef NT
#define NT 3
#endif
extern int qsv_gmp_live;
static int t_sign[NT + 1], t_neg[NT + 1], t_coef[NT + 1], t_cval[NT + 1], t_var[NT + 1], t_known[NT + 1], t_col[NT + 1];	/* the token stream */
static int cur, errors, n_added, a_col[NT + 1], a_row[NT + 1], a_val[NT + 1], newcols;
static int pick(int lo_, int hi_) { int v = (int) (nondet_uint() & 7u) + lo_; ASSUME(v <= hi_); return v; }
int mpq_ILLread_lp_state_sign(mpq_ILLread_lp_state *st, mpq_t *sign)
{ mpq_set_si(*sign, 1, 1UL); if (cur < NT && t_sign[cur]) { if (t_neg[cur]) mpq_set_si(*sign, -1, 1UL); return 0; } return 1; }
int mpq_ILLread_lp_state_possible_coef(mpq_ILLread_lp_state *st, mpq_t *coef, const mpq_t defValue)
{ mpq_set(*coef, defValue); if (cur < NT && t_coef[cur]) { mpq_set_si(*coef, t_cval[cur], 1UL); return 0; } return 1; }
int mpq_ILLread_lp_state_next_var(mpq_ILLread_lp_state *st)
{ if (cur < NT && t_var[cur]) { st->field[0] = 'x'; st->field[1] = 0; return 0; } return 1; }
int ILLsymboltab_lookup(ILLsymboltab *h, const char *s, int *p_index) { if (t_known[cur]) { *p_index = t_col[cur]; return 0; } return 1; }
int mpq_ILLraw_add_col(mpq_rawlpdata *lp, const char *name, int intmarker) { if (nondet_bool()) return 1; lp->ncols++; newcols++; return 0; }
int mpq_ILLraw_add_col_coef(mpq_rawlpdata *lp, int colind, int rowind, mpq_t coef)
{	int rv = nondet_bool();
	ASSERT(DENV(coef) == 1, "model: value stays integral in this bounded group");
	if (n_added < NT) { a_col[n_added] = colind; a_row[n_added] = rowind; a_val[n_added] = NUMV(coef); }
	n_added++; cur++;	/* the term is complete: the scanner moves on to the next one */
	return rv; }
int mpq_ILLlp_error(mpq_ILLread_lp_state *st, const char *format, ...) { errors++; return 1; }
void mpq_ILLlp_warn(mpq_ILLread_lp_state *st, const char *format, ...) { }
const char *mpq_ILLraw_rowname(mpq_rawlpdata *lp, int i) { return nondet_bool() ? "r" : 0; }
void harness(void)
{
	static mpq_rawlpdata raw; mpq_rawlpdata *lp = &raw;
	mpq_ILLread_lp_state *st = qsv_alloc(sizeof *st);
	int i, rv, live0, row = nondet_int(), allowNew = nondet_bool(), ncols0 = 2;
	qsv_init_globals();
	for (i = 0; i < NT; i++) { t_sign[i] = nondet_bool(); t_neg[i] = nondet_bool(); t_coef[i] = nondet_bool(); t_cval[i] = pick(-3, 3); t_var[i] = nondet_bool(); t_known[i] = nondet_bool(); t_col[i] = pick(0, 1); }
	t_sign[NT] = 0; t_coef[NT] = 0; t_var[NT] = 0;
	lp->ncols = ncols0; st->field[0] = 0;
	live0 = qsv_gmp_live;
	rv = mpq_ILLread_constraint_expr(st, lp, row, allowNew);
	ASSERT(qsv_gmp_live == live0, "C18: the expression reader leaves no temporary number behind, whatever it read");
	for (i = 0; i < NT; i++) if (i < n_added) {
		int want = (t_sign[i] && t_neg[i] ? -1 : 1) * (t_coef[i] ? t_cval[i] : 1);
		ASSERT(a_row[i] == row && a_val[i] == want, "C10: a term is handed on as sign * coefficient for this row; an omitted coefficient is 1, an omitted sign is +");
		ASSERT(t_known[i] ? a_col[i] == t_col[i] : a_col[i] >= ncols0, "C10: the coefficient goes to the column the name denotes (a new column for a new name)");
	}
	if (rv == 0) {
		/* a further term is entered only behind an explicit sign (the first term needs none) */
		int entered = cur < NT && (cur == 0 || t_sign[cur]);
		ASSERT(n_added == cur && !(entered && t_var[cur]), "C10: reading stops only where no further term follows (no sign, or no variable)");
		ASSERT(!(entered && t_coef[cur] && !t_var[cur]), "C11: a coefficient that is not followed by a variable is an error");
	}
	COVER_MUST(rv == 0 && n_added == NT, "three_terms");
	COVER_MUST(rv != 0 && errors > 0, "rejected");
	REACH_END();
}
QSV_MAIN(harness)
