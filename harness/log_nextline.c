/* C20 / C11: mpq_ILLread_lp_state_next_line (read_lp.c, REAL).
 *   C20  with state->interactive == 0 (every reader state the file readers create, lp.c:729) nothing is
 *        written to stdout: the "> " prompt is an interactive-editor feature only
 *   C11  progress: every call either consumes at least one input line (line_num advances) or sets eof;
 *        after the call p points into line[], and line[] is NUL-terminated
 * BOUND: input lines of at most LLEN characters (arbitrary bytes), at most 3 lines per call. */
#include <stdio.h>
#include <string.h>
#include "qsv.h"
#include "qs_config.h"
#include "read_lp_mpq.h"
#ifndef LLEN
#define LLEN 3
#endif
int g_fprintf_calls, g_fflush_calls, g_lines_given;
int fprintf(FILE *f, const char *fmt, ...) { if (f == stdout || f == stderr) g_fprintf_calls++; return 0; }
int fflush(FILE *f) { if (f == stdout || f == stderr) g_fflush_calls++; return 0; }
static char *fake_gets(char *s, int size, void *src)
{
	int i, n;
	if (g_lines_given >= 3 || nondet_bool()) return 0;
	g_lines_given++;
	n = (int) (nondet_uint() % (LLEN + 1));
	for (i = 0; i < LLEN; i++) if (i < n) { char c = nondet_char(); __CPROVER_assume(c != 0); s[i] = c; }
	s[n] = 0;
	return s;
}
void harness(void)
{
	mpq_ILLread_lp_state *st = qsv_alloc(sizeof *st);
	mpq_qsline_reader rd;
	IN_BOOL(interactive); IN_BOOL(eof0); IN_INT(line0);
	int rv;
	ASSUME(0 <= line0 && line0 < 1000000);
	rd.read_line_fct = fake_gets; rd.data_src = 0; rd.error_collector = 0;
	st->file = &rd; st->file_name = "f"; st->interactive = interactive; st->eof = (char) eof0; st->line_num = line0;
	st->line[0] = 0; st->realline[0] = 0; st->field[0] = 0; st->p = st->line;
	rv = mpq_ILLread_lp_state_next_line(st);
	if (!interactive) ASSERT(g_fprintf_calls == 0 && g_fflush_calls == 0, "C20: a non-interactive reader state never writes a prompt to stdout");
	ASSERT(rv == 0 || st->eof, "C11: a failing next_line has set eof");
	ASSERT(eof0 || st->line_num > line0, "C11: next_line consumes input (line counter advances) unless eof was already set");
	ASSERT(!(rv == 0) || (st->p >= st->line && st->p <= st->line + LLEN), "C11: the cursor points into the current line");
	REACH_END();
}
QSV_MAIN(harness)
