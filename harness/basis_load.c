/* C12: mpq_ILLbasis_load (basis.c, REAL): the status vectors of a basis become the internal
 * vstat / baz / nbaz / vindex arrays.  Contract (from the documented status codes, basicdefs.h):
 *   accepted (0) ==> for every structural i:  vstat[structmap[i]] = BASIC/LOWER/UPPER/ZERO for cstat '1','0','2','3'
 *                    for every row i:          vstat[rowmap[i]]    = BASIC/LOWER for rstat '1','0', UPPER for '2' (ranged rows only)
 *                    baz / nbaz / vindex are consistent: baz[vindex[j]] == j for basic j, nbaz[vindex[j]] == j otherwise
 *   a basis whose number of basic entries is not nrows, or with an illegal code, must not cause an out-of-bounds write
 * BOUND: nstruct, nrows <= NBMAX; structmap/rowmap an arbitrary bijection onto the columns. */
#include "qsv.h"
#include "qs_config.h"
#include "basis_mpq.h"
#include "lpdata_mpq.h"
#ifndef NBMAX
#define NBMAX 2
#endif
void mpq_ILLfactor_free_factor_work(mpq_factor_work *f) { }
static int pick(int lo_, int hi_) { int v = (int) (nondet_uint() & 7u) + lo_; ASSUME(v <= hi_); return v; }
void harness(void)
{
	mpq_lpinfo *lp = qsv_alloc(sizeof *lp);
	mpq_ILLlpdata *O = qsv_alloc(sizeof *O);
	mpq_ILLlp_basis B;
	IN_INT(nstruct); IN_INT(nrows); IN_BOOL(well_formed);
	int i, k, ncols, rv, nbas = 0, legal = 1, colof[2 * NBMAX];
	ASSUME(1 <= nstruct && nstruct <= NBMAX && 1 <= nrows && nrows <= NBMAX);
	ncols = nstruct + nrows;
	lp->O = O; lp->baz = 0; lp->nbaz = 0; lp->vstat = 0; lp->vindex = 0; lp->f = 0; lp->fbasisid = 0; lp->basisid = 0;
	O->nstruct = nstruct; O->nrows = nrows; O->ncols = ncols;
	O->structmap = qsv_alloc(sizeof(int) * (size_t) nstruct); O->rowmap = qsv_alloc(sizeof(int) * (size_t) nrows); O->sense = qsv_alloc((size_t) nrows);
	B.nstruct = nstruct; B.nrows = nrows; B.cstat = qsv_alloc((size_t) nstruct); B.rstat = qsv_alloc((size_t) nrows); B.rownorms = 0; B.colnorms = 0;
	for (i = 0; i < 2 * NBMAX; i++) if (i < ncols) { colof[i] = pick(0, 2 * NBMAX - 1); ASSUME(colof[i] < ncols); for (k = 0; k < i; k++) ASSUME(colof[k] != colof[i]); }
	for (i = 0; i < NBMAX; i++) if (i < nstruct) { char c = (char) ('0' + pick(0, 4)); O->structmap[i] = colof[i]; B.cstat[i] = c; if (c == '1') nbas++; if (c > '3') legal = 0; }
	for (i = 0; i < NBMAX; i++) if (i < nrows) { char c = (char) ('0' + pick(0, 3)), sn = "LGER"[pick(0, 3)]; O->rowmap[i] = colof[nstruct + i]; O->sense[i] = sn; B.rstat[i] = c; if (c == '1') nbas++; if (c > '2' || (c == '2' && sn != 'R')) legal = 0; }
	if (well_formed) ASSUME(legal && nbas == nrows);	/* what QSload_basis / QSload_basis_array / the basis reader guarantee */
	rv = mpq_ILLbasis_load(lp, &B);
	if (well_formed) ASSERT(rv == 0, "C12: a well-formed basis is loaded");
	if (rv == 0) {
		ASSERT(legal, "C12: a basis with an illegal status code is not loaded");
		for (i = 0; i < NBMAX; i++) if (i < nstruct) {
			int j = O->structmap[i], want = B.cstat[i] == '1' ? STAT_BASIC : B.cstat[i] == '0' ? STAT_LOWER : B.cstat[i] == '2' ? STAT_UPPER : STAT_ZERO;
			ASSERT(lp->vstat[j] == want, "C12: the internal status of every structural column is the one the basis states");
		}
		for (i = 0; i < NBMAX; i++) if (i < nrows) {
			int j = O->rowmap[i], want = B.rstat[i] == '1' ? STAT_BASIC : B.rstat[i] == '0' ? STAT_LOWER : STAT_UPPER;
			ASSERT(lp->vstat[j] == want, "C12: the internal status of every row's logical is the one the basis states (at-upper only for ranged rows)");
		}
		if (nbas == nrows) for (i = 0; i < 2 * NBMAX; i++) if (i < ncols) {
			if (lp->vstat[i] == STAT_BASIC) ASSERT(0 <= lp->vindex[i] && lp->vindex[i] < nrows && lp->baz[lp->vindex[i]] == i, "C12: baz and vindex are inverse on the basic columns (one basic variable per row position)");
			else ASSERT(0 <= lp->vindex[i] && lp->vindex[i] < nstruct && lp->nbaz[lp->vindex[i]] == i, "C12: nbaz and vindex are inverse on the non-basic columns");
		}
	}
	COVER_MUST(rv == 0 && nrows == NBMAX && nstruct == NBMAX, "loaded");
	REACH_END();
}
QSV_MAIN(harness)
