/* C06 / C17: ILLlib_getcols (lib.c, REAL; behind QSget_columns / QSget_columns_list) on a CONSTRUCTED problem of 2 rows and
 * 2 structural columns (column a in rows 0 and 1, column b in row 1; one logical per row), logical columns stored first
 * (LF=1: the external order differs from the internal one) or last (LF=0), queried for the column list {1, 0}:
 *   every output describes the columns ASKED FOR, in the order asked: counts, begin offsets, (row, value) entries, objective
 *   coefficient, lower and upper bound -- all through the column map -- and the column's own name.
 * Concrete sparsity pattern and list (the allocation sizes must be compile-time constants for CBMC), symbolic values. */
#include <string.h>
#include "qsv.h"
#include "qs_config.h"
#include "lib_mpq.h"
#ifndef LF
#define LF 1
#endif
void harness(void)
{
	mpq_lpinfo *lp = qsv_alloc(sizeof *lp); static mpq_ILLlpdata lpd; mpq_ILLlpdata *O = &lpd;
	static int matbeg[4], matcnt[4], matind[6], structmap[2], rowmap[2], collist[2] = { 1, 0 }; static mpq_t matval[6], obj[4], lo[4], up[4];
	static char na[2] = "a", nb[2] = "b"; static char *colnames[2] = { na, nb };
	int va0 = nondet_int(), va1 = nondet_int(), vb1 = nondet_int(), ov[4], lv[4], uv[4];
	const int a = LF ? 2 : 0, b = LF ? 3 : 1, g0 = LF ? 0 : 2, g1 = LF ? 1 : 3;
	int pos = 0, k, rv, *ccnt = 0, *cbeg = 0, *cind = 0; mpq_t *cval = 0, *oobj = 0, *olo = 0, *oup = 0; char **names = 0;
	qsv_init_globals();
	for (k = 0; k < 4; k++) {
		matbeg[k] = pos; ov[k] = nondet_int(); lv[k] = nondet_int(); uv[k] = nondet_int(); qsv_setnum(obj[k], ov[k]); qsv_setnum(lo[k], lv[k]); qsv_setnum(up[k], uv[k]);
		if (k == a) { matcnt[k] = 2; matind[pos] = 0; qsv_setnum(matval[pos], va0); pos++; matind[pos] = 1; qsv_setnum(matval[pos], va1); pos++; }
		else if (k == b) { matcnt[k] = 1; matind[pos] = 1; qsv_setnum(matval[pos], vb1); pos++; }
		else { matcnt[k] = 1; matind[pos] = (k == g0) ? 0 : 1; qsv_setnum(matval[pos], 1); pos++; }
	}
	matind[5] = -1;
	lp->O = O; O->nrows = 2; O->ncols = 4; O->nstruct = 2; O->nzcount = 5; O->structmap = structmap; O->rowmap = rowmap; structmap[0] = a; structmap[1] = b; rowmap[0] = g0; rowmap[1] = g1;
	O->A.matbeg = matbeg; O->A.matcnt = matcnt; O->A.matind = matind; O->A.matval = matval; O->A.matrows = 2; O->A.matcols = 4; O->obj = obj; O->lower = lo; O->upper = up; O->colnames = colnames;
	rv = mpq_ILLlib_getcols(lp, 2, collist, &ccnt, &cbeg, &cind, &cval, &oobj, &olo, &oup, &names);
	ASSERT(rv == 0, "C06: the columns of a well-formed problem are handed out");
	ASSERT(ccnt[0] == 1 && ccnt[1] == 2 && cbeg[0] == 0 && cbeg[1] == 1, "C06: counts and offsets describe the columns asked for (b, then a), in that order");
	ASSERT(cind[0] == 1 && NUMV(cval[0]) == vb1 && cind[1] == 0 && NUMV(cval[1]) == va0 && cind[2] == 1 && NUMV(cval[2]) == va1, "C06: the entries handed out are the coefficients of the columns asked for");
	ASSERT(NUMV(oobj[0]) == ov[b] && NUMV(oobj[1]) == ov[a] && NUMV(olo[0]) == lv[b] && NUMV(olo[1]) == lv[a] && NUMV(oup[0]) == uv[b] && NUMV(oup[1]) == uv[a], "C06: objective coefficient, lower and upper bound of each column asked for (read through the column map)");
	ASSERT(names[0][0] == 'b' && names[1][0] == 'a', "C06: each column asked for comes with its own name");
	REACH_END();
}
QSV_MAIN(harness)
