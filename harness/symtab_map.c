/* C06 (names, name -> index lookups) / C11 / C17: the symbol table (symtab.c, REAL) behaves as a FINITE MAP from names
 * to entries for every history of at most K operations, starting from a table created with capacity 2 (so that the
 * growth of the entry table -- with re-hashing -- and of the string pool, 10 bytes, both happen inside the bound).
 * Operations: register(name, index), delete(name), lookup(name) over the names "a","b","ab","ba","bb".
 * After EVERY operation, for EVERY name: contains(name) <=> the reference set holds it (the whole view, not only the
 * name touched), tablesize == number of names, the entry found carries that name's string; a duplicate register reports
 * 'existed' and changes nothing; deleting an unknown name fails and changes nothing; after any successful delete or any
 * register with a negative index the name->index cache is marked invalid (index_ok == 0: lib.c re-indexes only then).
 * All pointer / bounds obligations of symtab.c are checked on the way (string pool overflow, table overflow). */
#include <string.h>
#include "qsv.h"
#include "qs_config.h"
#include "symtab.h"
#ifndef K
#define K 5
#endif
#ifndef CAP0
#define CAP0 2
#endif
#define NN 5
static const char *names[NN] = { "a", "b", "ab", "ba", "bb" };
static int present[NN], count;
static ILLsymboltab T;
static void check_all(const char *when)
{
	int k, ind;
	for (k = 0; k < NN; k++) {
		int found = !ILLsymboltab_lookup(&T, names[k], &ind);
		ASSERT(found == present[k], "C06: after every operation a name is found in the table iff the reference set holds it");
		if (found) { const char *s = ILLsymboltab_get(&T, ind); ASSERT(s != 0 && strcmp(s, names[k]) == 0, "C06: the entry found for a name carries that name"); }
	}
	ASSERT(T.tablesize == count, "C06: the table holds exactly as many entries as names were registered and not deleted");
	ASSERT(T.strsize <= T.strspace && T.tablesize <= T.name_space, "C17: string pool and entry table stay within their capacities");
}
void harness(void)
{
	int step, rv;
	ILLsymboltab_init(&T);
	rv = ILLsymboltab_create(&T, CAP0);
	ASSUME(rv == 0);
#ifdef SCENARIO
	/* fixed histories (the generic K-step exploration does not finish in CBMC: symbolic hashing over reallocated tables):
	 *  1: ab, ba, ..., a   -- the second name does not fit the 5-byte string pool by exactly its terminating NUL (3 + 3 bytes)
	 *  2: a, b, ab, lookups -- the entry table grows twice (capacity 1 -> 2 -> 4) with re-hashing
	 *  3: a, b, ba; index cache valid; delete the LAST entry; delete a middle entry
	 *  4: ab, a (pool of 5 bytes full), delete ab (more than half of the pool is dead), b -- the pool is COMPACTED, then lookup a
	 * after every operation the whole view is compared with the reference set */
	{
		static const int seq[4][5][2] = { { {0,2},{0,3},{2,2},{2,3},{0,0} }, { {0,0},{0,1},{0,2},{2,1},{2,3} }, { {0,0},{0,1},{0,3},{1,3},{1,0} }, { {0,2},{0,0},{1,2},{0,1},{2,0} } };
		for (step = 0; step < 5; step++) {
			int op = seq[SCENARIO - 1][step][0], k = seq[SCENARIO - 1][step][1], pind, hit;
			if (op == 0) { T.index_ok = 1; rv = ILLsymboltab_register(&T, names[k], step, &pind, &hit); ASSERT(rv == 0 && hit == present[k], "C06/C07: register succeeds and reports duplicates"); if (!present[k]) { present[k] = 1; count++; } }
			else if (op == 1) { T.index_ok = 1; rv = ILLsymboltab_delete(&T, names[k]); ASSERT((rv == 0) == present[k], "C07: deleting succeeds iff the name is in the table"); if (present[k]) { present[k] = 0; count--; ASSERT(T.index_ok == 0, "C06: every successful delete invalidates the name->index cache (later entries change their index)"); } }
			else ASSERT(ILLsymboltab_contains(&T, names[k]) == present[k], "C06: lookup agrees with the reference set");
			check_all("after op");
		}
	}
#else
	for (step = 0; step < K; step++) {
		int op = (int) (nondet_uint() % 3u), k = (int) (nondet_uint() % NN), pind, hit;
		if (op == 0) {
			int idx = nondet_bool() ? step : -1;
			T.index_ok = nondet_bool();
			rv = ILLsymboltab_register(&T, names[k], idx, &pind, &hit);
			ASSERT(rv == 0, "C06: registering a name succeeds (allocation failure aside)");
			ASSERT(hit == present[k], "C07: registering an existing name reports the duplicate");
			if (!present[k]) { present[k] = 1; count++; }
			if (idx < 0) ASSERT(T.index_ok == 0, "C06: registering an entry without index invalidates the name->index cache");
		} else if (op == 1) {
			T.index_ok = 1;
			rv = ILLsymboltab_delete(&T, names[k]);
			ASSERT((rv == 0) == present[k], "C07: deleting succeeds iff the name is in the table");
			if (present[k]) { present[k] = 0; count--; ASSERT(T.index_ok == 0, "C06: every successful delete invalidates the name->index cache (later entries change their index)"); }
		} else {
			ASSERT(ILLsymboltab_contains(&T, names[k]) == present[k], "C06: lookup agrees with the reference set");
		}
		check_all("after op");
	}
#endif
	COVER_MUST(T.name_space > CAP0, "grown");
	REACH_END();
}
QSV_MAIN(harness)
