/* C14: "a basis file reads back as the same basis" -- the writer and the reader of lib.c (REAL: mpq_ILLlib_writebasis,
 * mpq_ILLlib_readbasis) against ONE record-level specification of the file, so that the round trip is a two-contract lemma.
 * The text layer (EGioPrintf formatting, MPS line tokenising, name lookup) is replaced by a record stream:
 *     NAME <problem> ; ( XL|XU <column> <row> )* ; ( UL <column> )* ; ENDATA
 *   enc(B): the k-th non-basic row (in row order) is paired with the k-th basic structural column (in column order),
 *           XL if the row is at lower, XU if at upper; then one UL record per structural column at upper.
 *   FN_write  the records the writer emits are exactly enc(B) (and it fails iff there are more non-basic rows than
 *             basic columns)
 *   FN_read   fed enc(B) for an arbitrary well-formed B, the reader returns B, except that a non-basic column at lower
 *             whose bounds are (-inf,+inf) comes back as FREE (documented), and FREE columns written as lower
 *             likewise; the free-variable correction looks at the bounds of the column's OWN internal index
 * BOUND: nstruct, nrows <= NB (3); column map structmap arbitrary. */
#include <stdarg.h>
#include <string.h>
#include "lib_contracts.h"
#include "read_mps_mpq.h"
#include "mps_mpq.h"
struct qsv_ghost qsv_g;
int g_sinfo_freed;
#ifndef NB
#define NB 3
#endif
#define MAXREC (2 * NB + 4)
#ifndef NANY
#define NANY 4
#endif
enum { R_NAME = 1, R_XL, R_XU, R_UL, R_END, R_LL, R_BADKEY, R_BADFIELD };
#define OBJ_IX 7	/* name index standing for the objective row's name: known to the name tables, but neither a column nor a constraint row */
static int rec_kind[MAXREC], rec_col[MAXREC], rec_row[MAXREC], nrec;
static char cn[NB][3], rn[NB][3];
static char *colnames[NB], *rownames[NB];
static char probname[] = "P";
const char *mpq_ILLmps_section_name[ILL_MPS_N_SECTIONS + 2] = { "NAME", "OBJSENSE", "OBJNAME", "ROWS", "COLUMNS", "RHS", "RANGES", "BOUNDS", "REFROW", "ENDATA", 0, 0 };
static int pick(int lo_, int hi_) { int v = (int) (nondet_uint() & 7u) + lo_; ASSUME(v <= hi_); return v; }
static EGioFile_t the_file;
EGioFile_t *EGioOpen(const char *path, const char *mode) { return &the_file; }
int EGioClose(EGioFile_t *f) { return 0; }
static int col_of(const char *s) { int j; for (j = 0; j < NB; j++) if (s == colnames[j] || (s[0] == 'c' && s[1] == (char) ('0' + j))) return j; return -1; }
static int row_of(const char *s) { int j; for (j = 0; j < NB; j++) if (s == rownames[j] || (s[0] == 'r' && s[1] == (char) ('0' + j))) return j; return -1; }

/* ---------------- the specification: enc(B) ---------------- */
static int spec_kind[MAXREC], spec_col[MAXREC], spec_row[MAXREC], nspec, spec_fail;
static void enc(int ns, int nr, const char *cstat, const char *rstat)
{
	int i, j = 0, k = 0;
	nspec = 0; spec_fail = 0;
	spec_kind[nspec++] = R_NAME;
	for (i = 0; i < NB; i++) if (i < nr && rstat[i] != QS_ROW_BSTAT_BASIC) {
		while (j < ns && cstat[j] != QS_COL_BSTAT_BASIC) j++;
		if (j >= ns) { spec_fail = 1; return; }
		spec_kind[nspec] = rstat[i] == QS_ROW_BSTAT_LOWER ? R_XL : R_XU; spec_col[nspec] = j; spec_row[nspec] = i; nspec++; j++;
	}
	for (k = 0; k < NB; k++) if (k < ns && cstat[k] == QS_COL_BSTAT_UPPER) { spec_kind[nspec] = R_UL; spec_col[nspec] = k; spec_row[nspec] = -1; nspec++; }
	spec_kind[nspec++] = R_END;
}

#if defined(FN_write)
int EGioPrintf(EGioFile_t *f, const char *format, ...)
{
	va_list ap; va_start(ap, format);
	if (nrec < MAXREC) {
		if (format[0] == 'N') { rec_kind[nrec] = R_NAME; }
		else if (format[0] == 'E') { rec_kind[nrec] = R_END; }
		else if (format[1] == 'X') { char *c = va_arg(ap, char *), *r = va_arg(ap, char *); rec_kind[nrec] = format[2] == 'L' ? R_XL : R_XU; rec_col[nrec] = col_of(c); rec_row[nrec] = row_of(r); }
		else if (format[1] == 'U') { char *c = va_arg(ap, char *); rec_kind[nrec] = R_UL; rec_col[nrec] = col_of(c); rec_row[nrec] = -1; }
		else rec_kind[nrec] = -1;
	}
	nrec++;
	va_end(ap); return 0;
}
#else
/* ---------------- record-level model of the MPS line reader ---------------- */
static int rd_pos, rd_field;
int mpq_ILLmps_state_init(mpq_ILLread_mps_state *st, mpq_qsline_reader *file, const char *fname) { st->key[0] = 0; st->field[0] = 0; rd_pos = 0; return 0; }
mpq_qsline_reader *mpq_ILLline_reader_new(mpq_qsread_line_fct fct, void *data_src) { return 0; }
void mpq_ILLline_reader_free(mpq_qsline_reader *r) { }
char *EGioGets(char *buf, int len, EGioFile_t *f) { return 0; }
static void set2(char *d, char a, char b) { d[0] = a; d[1] = b; d[2] = 0; }
int mpq_ILLmps_next_line(mpq_ILLread_mps_state *st)
{
	int k;
	if (rd_pos >= nspec) return 1;
	k = spec_kind[rd_pos];
	st->key[0] = 0; st->field[0] = 0; rd_field = 0;
	if (k == R_NAME) { strcpy(st->key, "NAME"); set2(st->field, 'P', 0); }
	else if (k == R_END) strcpy(st->key, "ENDATA");
	else if (k == R_XL) set2(st->field, 'X', 'L');
	else if (k == R_XU) set2(st->field, 'X', 'U');
	else if (k == R_LL) set2(st->field, 'L', 'L');
	else if (k == R_BADKEY) strcpy(st->key, "ROWS");
	else if (k == R_BADFIELD) set2(st->field, 'Z', 'Z');
	else set2(st->field, 'U', 'L');
	rd_pos++;
	return 0;
}
int mpq_ILLmps_next_field(mpq_ILLread_mps_state *st)
{
	int k = spec_kind[rd_pos - 1];
	if (rd_field == 0 && (k == R_XL || k == R_XU || k == R_UL || k == R_LL) && spec_col[rd_pos - 1] >= 0) { if (spec_col[rd_pos - 1] == OBJ_IX) set2(st->field, 'o', 'b'); else set2(st->field, 'c', (char) ('0' + spec_col[rd_pos - 1])); rd_field = 1; return 0; }
	if (rd_field == 1 && (k == R_XL || k == R_XU) && spec_row[rd_pos - 1] >= 0) { if (spec_row[rd_pos - 1] == OBJ_IX) set2(st->field, 'o', 'b'); else set2(st->field, 'r', (char) ('0' + spec_row[rd_pos - 1])); rd_field = 2; return 0; }
	st->field[0] = 0; return 1;
}
int mpq_ILLmps_empty_key(mpq_ILLread_mps_state *st) { return st->key[0] == 0; }
int mpq_ILLmps_empty_field(mpq_ILLread_mps_state *st) { return st->field[0] == 0; }
int mpq_ILLmps_error(mpq_ILLread_mps_state *st, const char *format, ...) { return 1; }
void mpq_ILLmps_warn(mpq_ILLread_mps_state *st, const char *format, ...) { }
int ILLutil_index(const char *list[], const char *name) { int i; for (i = 0; list[i] != 0; i++) if (!strcmp(list[i], name)) return i; return -1; }
char *ILLutil_str(const char *s) { char *r = malloc(3); if (r) { r[0] = s[0]; r[1] = s[1]; r[2] = 0; } return r; }
static mpq_ILLlpdata *gO;
int mpq_ILLlib_colindex(mpq_lpinfo *lp, const char *name, int *idx) { int j = col_of(name); *idx = (j >= 0 && j < gO->nstruct) ? j : -1; return 0; }
int mpq_ILLlib_rowindex(mpq_lpinfo *lp, const char *name, int *idx) { int j = row_of(name); *idx = (j >= 0 && j < gO->nrows) ? j : -1; return 0; }
/* name-table membership (not used by the reader today): the tables know every column / row name AND the objective row's name (index -1) */
int ILLsymboltab_contains(ILLsymboltab *h, const char *s) { int j = s[0] == 'c' ? col_of(s) : row_of(s); if (s[0] == 'o' && s[1] == 'b') return 1; return j >= 0 && j < (s[0] == 'c' ? gO->nstruct : gO->nrows); }
#endif

void harness(void)
{
	mpq_lpinfo *lp = qsv_alloc(sizeof *lp);
	mpq_ILLlpdata *O = qsv_alloc(sizeof *O);
	mpq_ILLlp_basis B;
	char cstat[NB], rstat[NB];
	IN_INT(ns); IN_INT(nr);
	int i, k, rv, nbas = 0;
	qsv_init_globals();
	ASSUME(1 <= ns && ns <= NB && 1 <= nr && nr <= NB);
	lp->O = O; lp->basisid = 0; O->nstruct = ns; O->nrows = nr; O->ncols = ns + nr; O->probname = probname;
	for (i = 0; i < NB; i++) { cn[i][0] = 'c'; cn[i][1] = (char) ('0' + i); cn[i][2] = 0; rn[i][0] = 'r'; rn[i][1] = (char) ('0' + i); rn[i][2] = 0; colnames[i] = cn[i]; rownames[i] = rn[i]; }
	O->colnames = colnames; O->rownames = rownames;
	for (i = 0; i < NB; i++) if (i < ns) { cstat[i] = (char) ('0' + pick(0, 3)); nbas += cstat[i] == '1'; }
	for (i = 0; i < NB; i++) if (i < nr) { rstat[i] = (char) ('0' + pick(0, 2)); nbas += rstat[i] == '1'; }
	enc(ns, nr, cstat, rstat);
#if defined(FN_write)
	B.nstruct = ns; B.nrows = nr; B.cstat = cstat; B.rstat = rstat; B.rownorms = 0; B.colnorms = 0;
	rv = mpq_ILLlib_writebasis(lp, &B, "f");
	ASSERT((rv != 0) == spec_fail, "C14: writing fails iff there are more non-basic rows than basic structural columns to pair them with");
	if (rv == 0) {
		ASSERT(nrec == nspec, "C14: the writer emits exactly the records of enc(B)");
		for (i = 0; i < MAXREC; i++) if (i < nspec) ASSERT(rec_kind[i] == spec_kind[i] && (spec_kind[i] == R_NAME || spec_kind[i] == R_END || (rec_col[i] == spec_col[i] && rec_row[i] == spec_row[i])),
			"C14: record i of the basis file is record i of enc(B): k-th non-basic row paired with the k-th basic column (XL/XU), then UL for every column at upper");
	}
	COVER_MUST(rv == 0 && nspec >= 5, "several_records");
#elif defined(FN_read)
	{
		int smap[NB], free_col[NB], colof[2 * NB];
		ASSUME(nbas == nr && !spec_fail);	/* B is a basis of the problem: one basic variable per row */
		gO = O;
		O->structmap = qsv_alloc(sizeof(int) * (size_t) ns); O->lower = qsv_numarray(2 * NB); O->upper = qsv_numarray(2 * NB);
		for (i = 0; i < 2 * NB; i++) { qsv_setnum(O->lower[i], nondet_bool() ? -QSV_INF : 0); qsv_setnum(O->upper[i], nondet_bool() ? QSV_INF : 5); }
		for (i = 0; i < NB; i++) if (i < ns) { smap[i] = pick(0, 2 * NB - 1); ASSUME(smap[i] < ns + nr); for (k = 0; k < i; k++) ASSUME(smap[k] != smap[i]); O->structmap[i] = smap[i];
			free_col[i] = NUMV(O->lower[smap[i]]) == -QSV_INF && NUMV(O->upper[smap[i]]) == QSV_INF; }
		rv = mpq_ILLlib_readbasis(lp, &B, "f");
		ASSERT(rv == 0, "C14: the file the writer produces for a basis of the problem is accepted by the reader");
		if (rv == 0) {
			ASSERT(B.nstruct == ns && B.nrows == nr, "C14: the basis read back has the problem's dimensions");
			for (i = 0; i < NB; i++) if (i < nr) ASSERT(B.rstat[i] == rstat[i], "C14: every row status reads back as written");
			for (i = 0; i < NB; i++) if (i < ns) {
				char want = cstat[i];
				if (want == QS_COL_BSTAT_FREE) want = QS_COL_BSTAT_LOWER;			/* non-basic free columns are encoded as at-lower */
				if (want == QS_COL_BSTAT_LOWER && free_col[i]) want = QS_COL_BSTAT_FREE;	/* and come back as free iff the column itself is free */
				ASSERT(B.cstat[i] == want, "C14: every column status reads back as written (same basic set, same at-upper assignments; at-lower <-> free exactly for columns without bounds)");
			}
		}
	}
#elif defined(FN_read_any)
	{	/* C11: ANY record sequence (wrong order, repeated / missing NAME, unknown keys and record types, missing fields, names that are
		 * not in the LP, the objective row's name where a column or row is expected): clean failure or a well-formed basis */
		gO = O;
		O->structmap = qsv_alloc(sizeof(int) * (size_t) ns); O->lower = qsv_numarray(2 * NB); O->upper = qsv_numarray(2 * NB);
		for (i = 0; i < 2 * NB; i++) { qsv_setnum(O->lower[i], nondet_bool() ? -QSV_INF : 0); qsv_setnum(O->upper[i], nondet_bool() ? QSV_INF : 5); }
		for (i = 0; i < NB; i++) if (i < ns) { O->structmap[i] = pick(0, 2 * NB - 1); ASSUME(O->structmap[i] < ns + nr); }
		nspec = pick(0, NANY); spec_fail = 0;
		for (i = 0; i < NANY; i++) { spec_kind[i] = pick(R_NAME, R_BADFIELD); spec_col[i] = pick(-1, 6) ; spec_row[i] = pick(-1, 6); if (spec_col[i] == 6) spec_col[i] = OBJ_IX; if (spec_row[i] == 6) spec_row[i] = OBJ_IX; }
		B.cstat = 0; B.rstat = 0;
		rv = mpq_ILLlib_readbasis(lp, &B, "f");
		if (rv == 0) {
			ASSERT(B.nstruct == ns && B.nrows == nr && B.cstat != 0 && B.rstat != 0, "C11: an accepted basis file gives a basis of the problem's dimensions");
			for (i = 0; i < NB; i++) if (i < ns) ASSERT(B.cstat[i] >= QS_COL_BSTAT_LOWER && B.cstat[i] <= QS_COL_BSTAT_FREE, "C11: every column status of an accepted basis file is a status code");
			for (i = 0; i < NB; i++) if (i < nr) ASSERT(B.rstat[i] >= QS_ROW_BSTAT_LOWER && B.rstat[i] <= QS_ROW_BSTAT_UPPER, "C11: every row status of an accepted basis file is a status code");
			COVER_MUST(nspec >= 3, "accepted_with_records");
			free(B.cstat); free(B.rstat);
		} else {
			ASSERT(B.cstat == 0 && B.rstat == 0, "C11/C18: a rejected basis file leaves no half-built basis behind");
			COVER_MUST(nspec >= 2, "rejected");
		}
		/* release what the harness built, so that anything still allocated was left behind by the reader (C18) */
		free(((size_t *) O->lower) - 1); free(((size_t *) O->upper) - 1); free(O->structmap); free(O); free(lp);
	}
#else
#error "select FN_write, FN_read or FN_read_any"
#endif
	REACH_END();
}
QSV_MAIN(harness)
