/* C12 "basis verdicts are exact": the REAL QSexact_basis_optimalstatus and QSexact_basis_dualstatus (exact.c compiled as
 * is).  Every other-TU callee is a ghost-recording stub with an arbitrary result, so the obligations are about the
 * plumbing of the verdict for EVERY behaviour of the callees:
 *   - the verdict is taken from a basic solution that was recomputed for the basis under test: the basis is loaded into
 *     the problem, the internal problem rebuilt, the basis loaded and factored, and only then the row multipliers, the
 *     reduced costs (after the multipliers), the basic primal values (optimal status) / the dual objective (dual status)
 *     are computed, and only then the feasibility checks run;
 *   - the feasibility checks receive the tolerance ZERO (a rational verdict has no tolerance);
 *   - the status flags are set from the results of exactly these checks;
 *   - *result is 1 iff the flags say optimal (optimal status); 1 / 0 as the flags say dual feasible / infeasible, and
 *     the dual bound handed out is the dual objective value (dual status);
 *   - a failure of any step is reported (non-zero) instead of a verdict; the stale cache is released completely.
 * GMP model TOKENS (cache->val must be cleared). */
#include <stdlib.h>
#include <string.h>
#include "qs_config.h"
#include "QSopt_ex.h"
#include "qsv.h"
int __QS_SB_VERB;
#include <sys/resource.h>
int getrusage(int who, struct rusage *r) { r->ru_utime.tv_sec = 0; r->ru_utime.tv_usec = 0; r->ru_stime.tv_sec = 0; r->ru_stime.tv_usec = 0; return 0; }
extern int qsv_gmp_live;
static int seq, t_load, t_build, t_bload, t_factor, t_piz, t_dz, t_xbz, t_dobj, t_pchk, t_dchk, t_set;
static int r_load, r_build, r_bload, r_factor, tol_p_zero, tol_d_zero, ps_given, ds_given, ps_made, ds_made, cache_freed;
int mpq_QSload_basis(mpq_QSdata *p, QSbasis *B) { t_load = ++seq; r_load = nondet_int(); return r_load; }
void mpq_ILLlp_cache_free(mpq_ILLlp_cache *C) { cache_freed++; }
void mpq_ILLlp_sinfo_free(mpq_ILLlp_sinfo *s) { }
void mpq_ILLlp_rows_clear(mpq_ILLlp_rows *r) { }
void mpq_free_internal_lpinfo(mpq_lpinfo *lp) { }
void mpq_init_internal_lpinfo(mpq_lpinfo *lp) { }
int mpq_build_internal_lpinfo(mpq_lpinfo *lp) { t_build = ++seq; r_build = nondet_int(); return r_build; }
void mpq_ILLfct_set_variable_type(mpq_lpinfo *lp) { }
int mpq_ILLbasis_load(mpq_lpinfo *lp, mpq_ILLlp_basis *B) { t_bload = ++seq; r_bload = nondet_int(); return r_bload; }
int mpq_ILLbasis_factor(mpq_lpinfo *lp, int *s) { t_factor = ++seq; *s = nondet_int(); r_factor = nondet_int(); return r_factor; }
void mpq_ILLfct_compute_piz(mpq_lpinfo *lp) { t_piz = ++seq; }
void mpq_ILLfct_compute_dz(mpq_lpinfo *lp) { t_dz = ++seq; }
void mpq_ILLfct_compute_xbz(mpq_lpinfo *lp) { t_xbz = ++seq; }
void mpq_ILLfct_compute_dobj(mpq_lpinfo *lp) { t_dobj = ++seq; qsv_setnum(lp->dobjval, 41); }
void mpq_ILLfct_check_pfeasible(mpq_lpinfo *lp, mpq_feas_info *fi, const mpq_t t) { t_pchk = ++seq; tol_p_zero = NUMV(t) == 0; ps_made = nondet_int(); fi->pstatus = ps_made; }
void mpq_ILLfct_check_dfeasible(mpq_lpinfo *lp, mpq_feas_info *fi, const mpq_t t) { t_dchk = ++seq; tol_d_zero = NUMV(t) == 0; ds_made = nondet_int(); fi->dstatus = ds_made; }
void mpq_ILLfct_set_status_values(mpq_lpinfo *lp, int ps, int ds, int a, int b)
{	t_set = ++seq; ps_given = ps; ds_given = ds;
	lp->basisstat.optimal = nondet_bool(); lp->basisstat.dual_feasible = nondet_bool(); lp->basisstat.dual_infeasible = nondet_bool(); lp->basisstat.dual_unbounded = nondet_bool(); }
void harness(void)
{
	mpq_QSdata *p = qsv_alloc(sizeof *p);
	QSbasis *B = qsv_alloc(sizeof *B);
	char result = 9; int rv, live0; IN_BOOL(has_cache); IN_BOOL(has_sinfo); IN_BOOL(has_rA); IN_INT(msg);
	qsv_init_globals();
	p->qslp = qsv_alloc(sizeof *p->qslp); p->lp = qsv_alloc(sizeof *p->lp); p->basis = 0; p->name = "P"; p->simplex_display = 0;
	p->qslp->sinfo = has_sinfo ? qsv_alloc(sizeof *p->qslp->sinfo) : 0; p->qslp->rA = has_rA ? qsv_alloc(sizeof *p->qslp->rA) : 0;
	mpq_init(p->lp->dobjval); mpq_init(p->lp->objbound); mpq_init(p->lp->dinfeas); qsv_setnum(p->lp->objbound, 43);
	live0 = qsv_gmp_live;
	p->cache = 0;
	if (has_cache) { p->cache = qsv_alloc(sizeof *p->cache); mpq_init(p->cache->val); }
#if defined(FN_optimalstatus)
	rv = QSexact_basis_optimalstatus(p, B, &result, msg);
	if (rv == 0) {
		ASSERT(r_load == 0 && r_build == 0 && r_bload == 0 && r_factor == 0, "C12: a failure of loading, rebuilding or factoring is reported instead of a verdict");
		ASSERT(0 < t_load && t_load < t_build && t_build < t_bload && t_bload < t_factor && t_factor < t_piz && t_piz < t_dz && t_factor < t_xbz && t_xbz < t_pchk && t_dz < t_dchk && t_pchk < t_set && t_dchk < t_set,
			"C12: the verdict is taken from the basic solution recomputed for the basis under test (load, rebuild, factor, multipliers, reduced costs, basic values, then the feasibility checks)");
		ASSERT(tol_p_zero && tol_d_zero, "C12: the exact feasibility checks run with tolerance zero");
		ASSERT(ps_given == ps_made && ds_given == ds_made, "C12: the status flags are set from the results of these checks");
		ASSERT(result == (p->lp->basisstat.optimal ? 1 : 0), "C12: the verdict is 1 iff the recomputed basic solution is primal and dual feasible");
	}
	COVER_MUST(rv == 0 && result == 1, "optimal");
#elif defined(FN_dualstatus)
	{
		mpq_t dob; IN_BOOL(want);
		mpq_init(dob); qsv_setnum(dob, 7);
		rv = QSexact_basis_dualstatus(p, B, &result, want ? &dob : 0, msg);
		if (rv == 0) {
			ASSERT(r_load == 0 && r_build == 0 && r_bload == 0 && r_factor == 0, "C12: a failure of loading, rebuilding or factoring is reported instead of a verdict");
			ASSERT(0 < t_load && t_load < t_build && t_build < t_bload && t_bload < t_factor && t_factor < t_piz && t_piz < t_dz && t_dz < t_dobj && t_dz < t_dchk && t_dchk < t_set,
				"C12: the verdict is taken from the dual solution recomputed for the basis under test");
			ASSERT(tol_d_zero, "C12: the exact dual feasibility check runs with tolerance zero");
			ASSERT(ds_given == ds_made, "C12: the status flags are set from the result of this check");
			if (p->lp->basisstat.dual_feasible) ASSERT(result == 1 && (!want || NUMV(dob) == 41), "C12: dual feasible: verdict 1 and the dual bound is the recomputed dual objective value");
			else if (p->lp->basisstat.dual_infeasible) ASSERT(result == 0 && NUMV(dob) == 7, "C12: dual infeasible: verdict 0 and no bound is handed out");
			else ASSERT(p->lp->basisstat.dual_unbounded && result == 1 && (!want || NUMV(dob) == 43), "C12: otherwise the problem must be dual unbounded and the bound is the objective bound");
		}
		COVER_MUST(rv == 0 && result == 0, "dual_infeasible");
		mpq_clear(dob);
	}
#else
#error "select FN_optimalstatus or FN_dualstatus"
#endif
	if (t_load && r_load == 0) {
		ASSERT(p->cache == 0 && (!has_cache || cache_freed == 1) && qsv_gmp_live == live0, "C05/C18: the stale solution cache is released completely (arrays, value, block) before the basis is evaluated");
		ASSERT(p->qstatus == QS_LP_MODIFIED, "C05: the stored status is reset");
	}
	REACH_END();
}
QSV_MAIN(harness)
