/* C10 / C11 / C18: the REAL ILLread_one_constraint (lp.c; with the REAL ILLread_constraint_expr and add_var behind it)
 * for every outcome of its callees: the row name is new or repeated, the expression holds 0..2 terms or is malformed, the
 * sense is present (<=, >=, =) or missing, the right-hand side is present or missing.
 *   C10  an accepted constraint is stored with exactly the sense and the right-hand side that were read, in the row that
 *        was added for it
 *   C11  a repeated row name, a missing sense and a missing right-hand side are errors
 *   C18  no temporary number is left behind on any path (GMP model TOKENS)
 * The scanner, the symbol table and the raw-problem adders are ghost-recording stubs. */
#include <string.h>
#include <stdarg.h>
#include "qsv.h"
#include "qs_config.h"
#include "rawlp_mpq.h"
#include "read_lp_mpq.h"
#include "lp_mpq.h"
extern int qsv_gmp_live;
static int nterms, term, errors, name_repeated, sense_ok, rhs_ok, rhs_v, row_added = -1, addrow_fails; static char sense_c;
int mpq_ILLread_lp_state_sign(mpq_ILLread_lp_state *st, mpq_t *sign) { mpq_set_si(*sign, 1, 1UL); return (term > 0 && term < nterms) ? 0 : 1; }
int mpq_ILLread_lp_state_possible_coef(mpq_ILLread_lp_state *st, mpq_t *coef, const mpq_t defValue) { mpq_set(*coef, defValue); return 1; }
int mpq_ILLread_lp_state_next_var(mpq_ILLread_lp_state *st) { if (term < nterms) { st->field[0] = 'x'; st->field[1] = 0; return 0; } return 1; }
int ILLsymboltab_lookup(ILLsymboltab *h, const char *s, int *p_index) { if (s[0] == 'r') { if (name_repeated) { *p_index = 0; return 0; } return 1; } *p_index = 0; return 0; }
int mpq_ILLraw_add_col(mpq_rawlpdata *lp, const char *name, int intmarker) { return 1; }
int mpq_ILLraw_add_col_coef(mpq_rawlpdata *lp, int colind, int rowind, mpq_t coef) { term++; return 0; }
int mpq_ILLraw_add_row(mpq_rawlpdata *lp, const char *name, int sense, const mpq_t rhs)
{ if (addrow_fails) return 1; row_added = lp->nrows; lp->rowsense[lp->nrows] = (char) sense; mpq_set(lp->rhs[lp->nrows], rhs); lp->nrows++; return 0; }
int mpq_ILLread_lp_state_sense(mpq_ILLread_lp_state *st) { if (sense_ok) { st->sense_val = sense_c; return 0; } errors++; return 1; }
int mpq_ILLread_lp_state_value(mpq_ILLread_lp_state *st, mpq_t *v) { if (rhs_ok) { mpq_set_si(*v, rhs_v, 1UL); return 0; } return 1; }
int mpq_ILLlp_error(mpq_ILLread_lp_state *st, const char *format, ...) { errors++; return 1; }
void mpq_ILLlp_warn(mpq_ILLread_lp_state *st, const char *format, ...) { }
const char *mpq_ILLraw_rowname(mpq_rawlpdata *lp, int i) { return "r"; }
void harness(void)
{
	static mpq_rawlpdata raw; mpq_rawlpdata *lp = &raw;
	mpq_ILLread_lp_state *st = qsv_alloc(sizeof *st);
	static char rowsense[3]; static mpq_t rhs[3];
	int rv, live0, i; IN_BOOL(named);
	qsv_init_globals();
	for (i = 0; i < 3; i++) { mpq_init(rhs[i]); rowsense[i] = '?'; }
	nterms = nondet_int(); ASSUME(0 <= nterms && nterms <= 2);
	name_repeated = nondet_bool(); sense_ok = nondet_bool(); rhs_ok = nondet_bool(); rhs_v = nondet_int(); addrow_fails = nondet_bool();
	sense_c = "LGE"[nondet_uint() % 3u];
	lp->nrows = 1; lp->ncols = 1; lp->rowsense = rowsense; lp->rhs = rhs;
	st->sense_val = ' '; st->field[0] = 0;
	live0 = qsv_gmp_live;
	rv = mpq_ILLread_one_constraint(st, named ? "r" : 0, lp, 1);
	ASSERT(qsv_gmp_live == live0, "C18: reading one constraint leaves no temporary number behind, whatever was read");
	if (named && name_repeated) ASSERT(rv != 0 && row_added < 0, "C11: a repeated row name is an error and adds no row");
	if (rv == 0) {
		ASSERT(sense_ok && rhs_ok && !addrow_fails && row_added == 1, "C11: a constraint is accepted only with a sense and a right-hand side");
		ASSERT(rowsense[1] == sense_c && NUMV(rhs[1]) == rhs_v && DENV(rhs[1]) == 1, "C10: the constraint is stored with the sense and the right-hand side that were read, in its own row");
		ASSERT(rowsense[0] == '?', "frame: other rows are untouched");
	}
	COVER_MUST(rv == 0 && nterms == 2, "accepted_two_terms");
	COVER_MUST(rv != 0 && sense_ok && !rhs_ok && !(named && name_repeated) && !addrow_fails, "missing_rhs");
	REACH_END();
}
QSV_MAIN(harness)
