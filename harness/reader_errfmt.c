/* C11: the error formatters of the readers (REAL code): lp_err via ILLlp_error / ILLlp_warn (read_lp.c),
 * mps_err via ILLmps_error / ILLmps_warn (read_mps.c), ILLmsg via ILLdata_error / ILLdata_warn (rawlp.c).
 * They format a message whose length is controlled by the input file (names, fields: up to
 * ILL_namebufsize characters each) into a 256-byte local buffer.
 * libc model: v(s)nprintf report an arbitrary formatted length g_len and write min(g_len, size-1)
 * characters + NUL; vsprintf writes g_len characters + NUL, and the obligation "the destination has room
 * for formatted_len + 1 bytes" is asserted inside the model (that is vsprintf's precondition).
 * Contract: no out-of-bounds access for ANY formatted length; the message reaches the error collector
 * (when one is installed) NUL-terminated, else the log.  No dfcc (variadic entry points). */
#include <stdarg.h>
#include <stdio.h>
#include <string.h>
#include "qsv.h"
#include "qs_config.h"
#include "read_lp_mpq.h"
#include "read_mps_mpq.h"
#include "rawlp_mpq.h"
#include "format_mpq.h"
unsigned long nondet_ulong(void);
#define LMAX 2000
#ifndef LLEN
#define LLEN 5
#endif
int g_len, g_collected, g_collected_ok, g_logged;
const char *g_fmt_buf; size_t g_fmt_len;	/* ghost: the buffer the last formatting call filled and the exact length of the string it holds */
int vsprintf(char *s, const char *fmt, va_list ap)
{
	__CPROVER_assert((size_t) g_len + 1 <= __CPROVER_OBJECT_SIZE(s) - (size_t) __CPROVER_POINTER_OFFSET(s),
		"vsprintf: the destination buffer has room for the formatted message (formatted_len + 1 bytes)");
	s[g_len] = 0;
	g_fmt_buf = s; g_fmt_len = (size_t) g_len;
	return g_len;
}
int vsnprintf(char *s, size_t n, const char *fmt, va_list ap)
{
	if (s != 0 && n > 0) { size_t w = (size_t) g_len < n - 1 ? (size_t) g_len : n - 1; s[w] = 0; g_fmt_buf = s; g_fmt_len = w; }
	return g_len;
}
size_t strlen(const char *s)
{	/* over-approximation: the position of SOME terminating NUL inside the object (the real strlen returns the first) */
	size_t w = nondet_ulong();
	if (s == g_fmt_buf) return g_fmt_len;	/* the string a formatting model just produced: exactly that many non-NUL characters */
	__CPROVER_assume(w < __CPROVER_OBJECT_SIZE(s) - (size_t) __CPROVER_POINTER_OFFSET(s));
	__CPROVER_assume(s[w] == 0);
	return w;
}
int mpq_ILLformat_error_create(mpq_qsformat_error *e, int mode, const char *desc, int lineNum, const char *theLine, int atPos)
{ e->desc = (char *) desc; e->theLine = (char *) theLine; e->type = mode; e->lineNumber = lineNum; e->at = atPos; e->next = 0; return 0; }
void mpq_ILLformat_error_delete(mpq_qsformat_error *e) { }
static int add_err(void *dest, const mpq_qsformat_error *e)
{ size_t k = nondet_uint(); g_collected++; __CPROVER_assume(k < 256); g_collected_ok = (e->desc != 0); (void) e->desc[k]; return 0; }

static void fill(char *line, int n)
{ int i; for (i = 0; i < LLEN; i++) if (i < n) { char c = nondet_char(); __CPROVER_assume(c != 0); line[i] = c; } line[n] = 0; }

void harness(void)
{
	mpq_qsline_reader rd; mpq_qserror_collector coll;
	IN_INT(len); IN_BOOL(has_collector); IN_BOOL(is_error); IN_INT(n); IN_INT(off);
	ASSUME(0 <= len && len <= LMAX && 0 <= n && n <= LLEN && 0 <= off && off <= n);
	g_len = len;
	coll.add_error = add_err; coll.dest = 0;
	rd.read_line_fct = 0; rd.data_src = 0; rd.error_collector = has_collector ? &coll : 0;
#if defined(FN_lp_err)
	{
		mpq_ILLread_lp_state *st = qsv_alloc(sizeof *st);
		IN_BOOL(eof); IN_BOOL(inter);
		st->file = &rd; st->file_name = "f"; st->interactive = inter; st->eof = (char) eof; st->line_num = 1;
		fill(st->line, n); fill(st->realline, n); st->field[0] = 0; st->p = st->line + off;
		if (is_error) mpq_ILLlp_error(st, "%s", "x"); else mpq_ILLlp_warn(st, "%s", "x");
	}
#elif defined(FN_mps_err)
	{
		mpq_ILLread_mps_state *st = qsv_alloc(sizeof *st);
		IN_BOOL(p_null);
		st->file = &rd; st->file_name = "f"; st->line_num = 1;
		fill(st->line, n); st->p = p_null ? 0 : st->line + off;
		if (is_error) mpq_ILLmps_error(st, "%s", "x"); else mpq_ILLmps_warn(st, "%s", "x");
	}
#elif defined(FN_ILLmsg)
	if (is_error) mpq_ILLdata_error(has_collector ? &coll : 0, "%s", "x"); else mpq_ILLdata_warn(has_collector ? &coll : 0, "%s", "x");
#else
#error "select FN_lp_err, FN_mps_err or FN_ILLmsg"
#endif
	ASSERT(!has_collector || (g_collected == 1 && g_collected_ok), "C11: the error reaches the installed error collector exactly once");
	COVER_MUST(len > 300, "long_message");
	REACH_END();
}
QSV_MAIN(harness)
