/* C11: the character-level scanners of the MPS reader (read_mps.c, REAL) on EVERY line content of at most LLEN bytes
 * (arbitrary non-NUL bytes, with or without a trailing newline -- the last line of a truncated file has none), cursor
 * anywhere in the line, the rest of the buffer holding arbitrary stale bytes from longer earlier lines.
 *   - the cursor stays inside the current line text, [line, line + strlen(line)]: what is read next is part of the
 *     input line, never what an earlier, longer line left in the buffer
 *   - a field that was read is NUL-terminated, no longer than the line, and is a run of characters OF THE LINE
 *   - next_line (WHICH=3): a line delivered by the line source is split into key / first field, cursor inside the line
 *   - every pointer / bounds obligation of the scanners
 * sscanf("%s"), strncasecmp are modelled; the numeric path (ILLget_value) is stubbed (decided in lpnum/...).
 * BOUND: LLEN = 4, buffer capacity reduced (namebuf). */
#include <stdarg.h>
#include <string.h>
#include <stdio.h>
#include "qsv.h"
#include "qs_config.h"
#include "read_mps_mpq.h"
#ifndef LLEN
#define LLEN 4
#endif
static int is_ws(int c) { c &= 0xff; return c == ' ' || c == '\t' || c == '\n' || c == '\r' || c == '\f' || c == '\v'; }
int sscanf(const char *s, const char *fmt, ...)
{	/* model of sscanf(s, "%s", out): skip white space, copy the next run of non-white-space characters */
	va_list ap; char *out; int i = 0, k = 0;
	va_start(ap, fmt); out = va_arg(ap, char *); va_end(ap);
	for (i = 0; i < LLEN + 2; i++) if (is_ws(s[k])) k++; else break;
	if (s[k] == 0) return EOF;
	for (i = 0; i < LLEN + 2; i++) { if (s[k] == 0 || is_ws(s[k])) break; out[i] = s[k++]; }
	out[i] = 0;
	return 1;
}
static int lc(int c) { c &= 0xff; return (c >= 'A' && c <= 'Z') ? c + 32 : c; }
int strncasecmp(const char *a, const char *b, size_t n)
{ size_t i; for (i = 0; i < 9; i++) if (i < n) { int x = lc(a[i]), y = lc(b[i]); if (x != y) return x - y; if (x == 0) return 0; } return 0; }
int vsnprintf(char *s, size_t n, const char *fmt, va_list ap) { if (s != 0 && n > 0) s[0] = 0; return 0; }	/* message formatting is decided in rdr/errfmt_* */
int mpq_ILLget_value(char *line, mpq_t *coef) { return 0; }	/* the numeric path is decided in lpnum/... */
static char g_src[LLEN + 2]; static int g_given;
static char *one_line(char *s, int size, void *src)
{	/* fgets-like line source: delivers the prepared line once, then end of file */
	int i;
	if (g_given) return 0;
	g_given = 1;
	for (i = 0; i < LLEN + 2; i++) { if (i < size - 1) s[i] = g_src[i]; if (g_src[i] == 0) break; }
	return s;
}
#ifdef WITH_MARKER
int __CPROVER_file_local_mps_mpq_c_is_marker_line(mpq_ILLread_mps_state *state);
#endif
void harness(void)
{
	mpq_ILLread_mps_state *st = qsv_alloc(sizeof *st);
	mpq_qsline_reader rd; mpq_t coef;
	IN_INT(n); IN_INT(off); IN_BOOL(newline); IN_INT(fieldnum);
	const int which = WHICH;
	int i, len, rv = 0;
	size_t cur;
	qsv_init_globals();
	ASSUME(0 <= n && n <= LLEN && 0 <= off && 0 <= fieldnum && fieldnum <= 5);
	for (i = 0; i < LLEN; i++) if (i < n) { char c = nondet_char(); ASSUME(c != 0 && c != '\n'); g_src[i] = c; }
	len = n; if (newline) g_src[len++] = '\n';
	g_src[len] = 0;
	ASSUME(off <= len);
	rd.read_line_fct = one_line; rd.data_src = 0; rd.error_collector = 0;
	st->file = &rd; st->file_name = "f"; st->line_num = 1; st->field[0] = 0; st->key[0] = 0; st->field_num = (unsigned) fieldnum;
	st->active = ILL_MPS_NONE; st->intvar = 0; st->sosvar = 0; st->obj = 0;
	if (which != 3) { for (i = 0; i < LLEN + 2; i++) st->line[i] = g_src[i]; st->p = st->line + off; g_given = 1; }
	else { st->line[0] = 0; st->p = 0; }
	mpq_init(coef);
	switch (which) {
	case 0: rv = mpq_ILLmps_next_field(st); break;
	case 1: mpq_ILLmps_check_end_of_line(st); break;
	case 2: rv = mpq_ILLmps_next_coef(st, &coef); break;
	case 3: rv = mpq_ILLmps_next_line(st); break;
#ifdef WITH_MARKER
	case 5: rv = __CPROVER_file_local_mps_mpq_c_is_marker_line(st);	/* the whole line is searched for the word 'MARKER' */
		ASSERT(rv == 0, "C10/C11: a line shorter than the word 'MARKER' (8 bytes) is not a marker line");
		break;
#endif
	default: rv = mpq_ILLmps_next_bound(st, &coef); break;
	}
	cur = 0; for (i = 0; i < LLEN + 2; i++) if (st->line[cur] != 0) cur++;
	if (!(which == 3 && rv != 0))
		ASSERT(st->p >= st->line && st->p <= st->line + cur, "C11: the cursor stays inside the current line text");
	if ((which == 0 || which == 3) && rv == 0) {
		size_t fl = 0; for (i = 0; i < LLEN + 2; i++) if (st->field[fl] != 0 && fl < LLEN + 1) fl++;
		ASSERT(st->field[fl] == 0 && fl <= LLEN, "C11: a field that was read is NUL-terminated and no longer than the line");
	}
	if (which == 3 && rv == 0) {
		size_t kl = 0; for (i = 0; i < LLEN + 2; i++) if (st->key[kl] != 0 && kl < LLEN + 1) kl++;
		ASSERT(st->key[kl] == 0 && kl <= LLEN, "C11: the key that was read is NUL-terminated and no longer than the line");
	}
	REACH_END();
}
QSV_MAIN(harness)
