/* C10 ("default/implicit bounds follow the documented rules": an MPS bound value may be written as an infinity) / C11:
 * mpq_ILLmps_next_bound (read_mps.c, REAL) on CONSTRUCTED field texts
 *     [+|-] ( INF | INFINITY in any letter case ) followed by blank, end of line, or another character
 * Contract: a signed or unsigned infinity word followed by a blank / end of line is read as +-ILL_MAXDOUBLE (sign '-'
 * gives the negative one), the cursor moves past it and the field counter advances; an infinity word that is only the
 * PREFIX of a longer token is not an infinity (the cursor is restored); the cursor never leaves the line buffer.
 * strncasecmp is modelled (plain loop).  BOUND: the constructed texts (length <= 12). */
#include <string.h>
#include "qsv.h"
#include "qs_config.h"
#include "read_mps_mpq.h"
static int lc(int c) { return (c >= 'A' && c <= 'Z') ? c + 32 : c; }
int strncasecmp(const char *a, const char *b, size_t n)
{ size_t i; for (i = 0; i < 8; i++) if (i < n) { int x = lc((unsigned char) a[i]), y = lc((unsigned char) b[i]); if (x != y) return x - y; if (x == 0) return 0; } return 0; }
int mpq_ILLget_value(char *line, mpq_t *coef) { return 0; }	/* the numeric path is decided in lpnum/* */
void harness(void)
{
	mpq_ILLread_mps_state *st = qsv_alloc(sizeof *st);
	static const char w[8] = "INFINITY";
	IN_INT(sign); IN_BOOL(longword); IN_INT(term); IN_INT(lead); IN_INT(fieldnum);
	int pos = 0, i, n, rv, start; mpq_t coef;
	qsv_init_globals();
	ASSUME(0 <= sign && sign <= 2 && 0 <= term && term <= 3 && 0 <= lead && lead <= 1 && 0 <= fieldnum && fieldnum <= 5);
	if (lead) st->line[pos++] = ' ';
	start = pos;
	if (sign == 1) st->line[pos++] = '+';
	if (sign == 2) st->line[pos++] = '-';
	n = longword ? 8 : 3;
	for (i = 0; i < 8; i++) if (i < n) st->line[pos++] = (char) (nondet_bool() ? w[i] : w[i] + 32);	/* any letter case */
	st->line[pos] = term == 0 ? 0 : term == 1 ? '\n' : term == 2 ? ' ' : 'x';	/* 'x': the word is only a prefix */
	st->line[pos + 1] = 0;
	st->p = st->line; st->field_num = (unsigned) fieldnum; st->line_num = 1; st->file = 0; st->file_name = "f";
	qsv_setnum(coef, 7);
	rv = mpq_ILLmps_next_bound(st, &coef);
	ASSERT(st->p >= st->line && st->p <= st->line + pos + 1, "C11: the cursor stays inside the line");
	if (term == 3) {
		ASSERT(rv != 0 && NUMV(coef) == 7, "C10: an infinity word that is only the prefix of a longer token is not read as an infinity");
	} else {
		ASSERT(rv == 0, "C10: INF / INFINITY (any case, optionally signed) is a bound value");
		ASSERT(NUMV(coef) == (sign == 2 ? -QSV_INF : QSV_INF), "C10: '-INF' is minus infinity, 'INF' and '+INF' are plus infinity");
		ASSERT(st->p == st->line + pos + (term == 2 ? 1 : 0) && st->field_num == (unsigned) fieldnum + 1, "C10/C11: the cursor moves past the word (and following blanks) and the field counter advances");
	}
	REACH_END();
}
QSV_MAIN(harness)
