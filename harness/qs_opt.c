/* C05, solve entry: mpq_QSopt_primal / mpq_QSopt_dual / opt_work (qsopt.c, REAL, loop-free) with every callee a
 * ghost-recording stub (ILLlib_optimize, grab_basis, QSgrab_cache, QScopy_prob, ILLlp_scale, pricing/cache free).
 *   S1  the optimizer is skipped only if a basis AND a cached solution exist (and, for the dual, the factorization flag is
 *       set); the status then reported is the cached one
 *   S2  the optimizer is asked to continue from the CURRENT factorization (basis argument NULL) only if factorok == 1 at
 *       entry; with factorok == 0 it is handed the problem's basis (or starts from scratch) -- together with C05/I2
 *       (every matrix edit clears factorok) no solve ever reuses a factorization across an edit
 *   S3  on success: factorok == 1, qstatus == the optimizer's status == *status, a cached solution exists iff that
 *       status is OPTIMAL (stale caches are dropped); a basis whose size does not match the problem is an error
 * Together with C05/I1 (every edit drops the cache) S1 says: after an edit the next QSopt call does solve. */
#include "qsopt_contracts.h"
struct qsv_ghost qsv_g;
int g_old_objsense, g_lib_rv, g_lib_called, g_cache_freed, g_basis_freed, g_basis_ok, g_cache_ok, g_factorok_out, g_factorok_in, g_sinfo_freed;
int g_opt_calls, g_opt_on_p, g_opt_B_null, g_opt_B_is_pbasis, g_opt_algo, g_opt_rv, g_opt_status, g_grab_basis_rv, g_grab_cache_calls, g_grab_cache_rv, g_copy_calls;
static mpq_QSdata *P, *P2;
int mpq_ILLlib_optimize(mpq_lpinfo *lp, mpq_ILLlp_basis *B, mpq_price_info *pinf, int algo, int *status, int simplex_display, struct itcnt_t *itcnt)
{
	int rv = nondet_bool() ? 0 : 1;
	if (lp == P->lp) { g_opt_calls++; g_opt_on_p = 1; g_opt_B_null = (B == 0); g_opt_B_is_pbasis = (B == P->basis); g_opt_algo = algo; g_opt_rv = rv;
		if (status) { g_opt_status = nondet_int(); *status = g_opt_status; } }
	return rv;
}
int grab_basis(mpq_QSdata *p) { int rv = nondet_bool() ? 0 : 1; if (p == P) { g_grab_basis_rv = rv; if (!rv && !p->basis) { p->basis = qsv_alloc(sizeof *p->basis); p->basis->nstruct = p->qslp->nstruct; p->basis->nrows = p->qslp->nrows; } } else if (!rv && !p->basis) p->basis = qsv_alloc(sizeof *p->basis); return rv; }
int mpq_QSgrab_cache(mpq_QSdata *p, int status) { g_grab_cache_calls++; g_grab_cache_rv = nondet_bool() ? 0 : 1; if (!g_grab_cache_rv && !p->cache) { p->cache = qsv_alloc(sizeof *p->cache); p->cache->status = status; } return g_grab_cache_rv; }
mpq_QSdata *mpq_QScopy_prob(mpq_QSdata *p, const char *name) { g_copy_calls++; if (nondet_bool()) return 0; P2 = qsv_alloc(sizeof *P2); P2->qslp = qsv_alloc(sizeof *P2->qslp); P2->lp = qsv_alloc(sizeof *P2->lp); P2->basis = 0; P2->pricing = 0; P2->simplex_display = 0; return P2; }
void mpq_QSfree_prob(mpq_QSdata *p) { }
int mpq_ILLlp_scale(mpq_ILLlpdata *lp) { return nondet_bool() ? 0 : 1; }
void mpq_ILLprice_free_pricing_info(mpq_price_info *const pinf) { }
void mpq_ILLlp_cache_free(mpq_ILLlp_cache *C) { g_cache_freed = 1; }
void mpq_ILLlp_basis_free(mpq_ILLlp_basis *B) { g_basis_freed = 1; }
void harness(void)
{
	IN_BOOL(dual); IN_BOOL(has_basis); IN_BOOL(has_cache); IN_BOOL(factorok); IN_INT(ns); IN_INT(nr); IN_INT(bns); IN_INT(bnr); IN_INT(basisid); IN_INT(scaling); IN_INT(cstatus);
	int rv, status = -7, f0, b0, c0;
	P = qsv_alloc(sizeof *P); P->qslp = qsv_alloc(sizeof *P->qslp); P->lp = qsv_alloc(sizeof *P->lp); P->lp->O = P->qslp; P->pricing = qsv_alloc(sizeof *P->pricing);
	P->qslp->nstruct = ns; P->qslp->nrows = nr; P->lp->basisid = basisid; P->simplex_scaling = scaling; P->simplex_display = 0; P->factorok = factorok; P->qstatus = nondet_int();
	P->basis = has_basis ? qsv_alloc(sizeof *P->basis) : 0; if (P->basis) { P->basis->nstruct = bns; P->basis->nrows = bnr; }
	P->cache = has_cache ? qsv_alloc(sizeof *P->cache) : 0; if (P->cache) P->cache->status = cstatus;
	f0 = factorok; b0 = has_basis; c0 = has_cache;
	rv = dual ? mpq_QSopt_dual(P, &status) : mpq_QSopt_primal(P, &status);
	if (!g_opt_on_p && rv == 0 && g_copy_calls == 0) {
		ASSERT(b0 && c0 && (!dual || f0), "C05/S1: the optimizer is skipped only if a basis and a cached solution exist (and, for the dual simplex, the factorization is marked valid)");
		ASSERT(status == cstatus && P->cache != 0, "C05/S1: a skipped solve reports the cached status");
	}
	if (g_opt_on_p) {
		ASSERT(g_opt_calls == 1 && g_opt_algo == (dual ? DUAL_SIMPLEX : PRIMAL_SIMPLEX), "C05: one optimizer run on the problem, with the requested algorithm");
		if (g_opt_B_null) ASSERT(f0 == 1 || P->basis == 0 || !b0, "C05/S2: the optimizer continues from the current factorization (no basis handed over) only if the factorization flag was set at entry");
		if (f0 == 0 && b0) ASSERT(g_opt_B_is_pbasis && !g_opt_B_null, "C05/S2: with the factorization flag cleared the optimizer is handed the problem's basis, so it refactors");
		if (b0) ASSERT(bns == ns && bnr == nr, "C07/S3: the optimizer is not run with a basis whose size does not match the problem");
	}
	if (b0 && (bns != ns || bnr != nr) && !(c0 && (!dual || f0))) ASSERT(rv != 0 && !g_opt_on_p, "C07/S3: a basis whose size does not match the problem is an error");
	if (rv == 0 && g_opt_on_p) {
		ASSERT(P->factorok == 1 && P->qstatus == g_opt_status && status == g_opt_status, "C05/S3: after a successful solve the factorization is marked valid and the status reported is the optimizer's");
		ASSERT((P->cache != 0) == (g_opt_status == QS_LP_OPTIMAL), "C05/S3: a cached solution exists after a solve iff the status is OPTIMAL (a stale cache is dropped)");
		ASSERT(P->basis != 0, "C12: a successful solve leaves a basis");
	}
	COVER_MUST(rv == 0 && g_opt_on_p && g_opt_B_null && f0 == 1, "warm");
	COVER_MUST(rv == 0 && !g_opt_on_p && g_copy_calls == 0, "skipped");
	REACH_END();
}
QSV_MAIN(harness)
