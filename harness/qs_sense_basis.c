/* C05 "re-solving after edits equals solving from scratch": the REAL mpq_QSchange_senses / mpq_QSchange_sense (qsopt.c)
 * on a problem that owns a stored basis.  The next solve starts by loading that basis (opt_work -> ILLbasis_load), and
 * ILLbasis_load accepts the row status 'at upper' only for a ranged row ('R'); so after a successful sense change the
 * stored basis must not keep 'at upper' for a row whose new sense is not 'R' -- otherwise the incremental solve fails
 * while a from-scratch solve of the edited problem succeeds.
 * The library callee ILLlib_chgsense is an arbitrary-result stub (its own contract: lib/chgsense_b).
 * BOUND: NRB = 3 rows, lists of at most 2 entries. */
#include "qsopt_contracts.h"
struct qsv_ghost qsv_g;
int g_old_objsense, g_lib_rv, g_lib_called, g_cache_freed, g_basis_freed, g_basis_ok, g_cache_ok, g_factorok_out, g_factorok_in, g_sinfo_freed;
#define NRB 3
void mpq_ILLlp_cache_free(mpq_ILLlp_cache *C) { }
int mpq_ILLlib_chgsense(mpq_lpinfo *lp, int num, int *rowlist, char *sense) { g_lib_rv = nondet_int(); return g_lib_rv; }
static int pick(int lo_, int hi_) { int v = (int) (nondet_uint() & 7u) + lo_; ASSUME(v <= hi_); return v; }
void harness(void)
{
	mpq_QSdata *p = qsv_alloc(sizeof *p);
	static char rstat[NRB], cstat[1]; static mpq_ILLlp_basis B;
	int rowlist[2]; char sense[2]; static const char codes[4] = { 'L', 'G', 'E', 'R' };
	int i, num, rv; IN_BOOL(has_basis); IN_BOOL(has_cache);
	p->qslp = qsv_alloc(sizeof *p->qslp); p->lp = qsv_alloc(sizeof *p->lp); p->lp->O = p->qslp; p->qslp->nrows = NRB; p->qslp->nstruct = 1;
	p->cache = 0; if (has_cache) { p->cache = qsv_alloc(sizeof *p->cache); mpq_init(p->cache->val); }
	p->qstatus = nondet_int(); p->factorok = nondet_bool(); p->name = 0; p->pricing = 0;
	B.nstruct = 1; B.nrows = NRB; B.cstat = cstat; B.rstat = rstat; B.rownorms = 0; B.colnorms = 0;
	for (i = 0; i < NRB; i++) rstat[i] = (char) ('0' + pick(0, 2));	/* lower, basic, upper */
	p->basis = has_basis ? &B : 0;
	num = pick(0, 2);
	for (i = 0; i < 2; i++) { rowlist[i] = pick(0, NRB - 1); sense[i] = codes[pick(0, 3)]; }
#ifdef FN_single
	rv = mpq_QSchange_sense(p, rowlist[0], sense[0]); num = 1;
#else
	rv = mpq_QSchange_senses(p, num, rowlist, sense);
#endif
	ASSERT((rv == 0) == (g_lib_rv == 0), "C07: the wrapper reports what the library edit reported");
	if (rv == 0 && has_basis)
		for (i = 0; i < 2; i++) if (i < num && sense[i] != 'R')
			ASSERT(rstat[rowlist[i]] != QS_ROW_BSTAT_UPPER, "C05: after a successful sense change the stored basis holds no 'at upper' status for a row that is no longer ranged (the next solve must be able to load it)");
	COVER_MUST(rv == 0 && has_basis && num == 2, "two_rows_changed");
	REACH_END();
}
QSV_MAIN(harness)
