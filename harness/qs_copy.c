/* QScopy_prob (qsopt.c) -- C16 "copies are faithful and independent".
 *
 * Real code: mpq_QScopy_prob (qsopt_mpq.c).  Replaced: mpq_QScreate_prob (body removed, the stub
 * below returns a fresh empty problem with freshly initialised pricing info, as the real one
 * does), ILLlib_newrows / ILLlib_addcol (lib.c; ghost-recording stubs: C06 decides what they do
 * with their arguments), symbol table, ILLutil_str, reporter copy, QSfree_prob's callees.
 *
 *  faithful     the row block is handed over as one call with the source's own arrays; the k-th
 *               ILLlib_addcol call receives column structmap[k]: its count, its slice of the
 *               matrix arrays, its objective, bounds and name (ghost call index gk); objective
 *               sense, display/scaling switches, pricing selectors and integer marks are copied
 *  independent  nothing reachable from the source is assigned or freed (checked by value on the
 *               scalars and by liveness on the arrays), and NO pointer member of the copy's
 *               pricing info equals the corresponding (non-NULL) pointer of the source
 * BOUND: nstruct <= NSMAX (loops unwound); everything else symbolic.
 */
#include "qsopt_contracts.h"
#include "price_mpq.h"
#include "dstruct_mpq.h"
struct qsv_ghost qsv_g;
#ifndef NSMAX
#define NSMAX 3
#endif
#define NRMAX 4
int g_newrows_calls, g_addcol_calls, g_fail_at, g_freed_p2, g_callee_failed, g_uname_called, g_row_named_obj;
mpq_QSdata *g_p2;
/* recorded arguments */
const mpq_t *g_nr_rhs, *g_nr_range; char *g_nr_sense; const char **g_nr_names; int g_nr_num; void *g_nr_lp;
int g_ac_cnt[NSMAX], g_ac_fok[NSMAX]; int *g_ac_ind[NSMAX]; mpq_t *g_ac_val[NSMAX]; int g_ac_obj[NSMAX], g_ac_lo[NSMAX], g_ac_up[NSMAX];
const char *g_ac_name[NSMAX]; void *g_ac_lp[NSMAX], *g_ac_B[NSMAX];

static int rv_or_fail(const char *nm)
{
#ifdef QSV_CBMC
	int r = nondet_bool() ? 0 : 1;
#else
	int r = (int) qsv_in(nm);
#endif
	if (r) g_callee_failed = 1;
	return r;
}
mpq_QSdata *mpq_QScreate_prob(const char *name, int objsense)
{
	mpq_QSdata *p;
	if (rv_or_fail("create_fails")) return 0;
	p = qsv_alloc(sizeof *p);
	p->qslp = qsv_alloc(sizeof *p->qslp); p->lp = qsv_alloc(sizeof *p->lp); p->lp->O = p->qslp;
	p->pricing = qsv_alloc(sizeof *p->pricing);
	p->basis = 0; p->cache = 0; p->name = 0; p->qstatus = QS_LP_UNSOLVED; p->factorok = 0;
	p->simplex_display = 0; p->simplex_scaling = 1;
	p->qslp->intmarker = 0; p->qslp->objname = 0; p->qslp->objsense = (objsense == QS_MAX) ? QS_MAX : QS_MIN;
	p->qslp->rowtab.tablesize = 0;
	mpq_init(p->pricing->htrigger);
	mpq_ILLprice_init_pricing_info(p->pricing);
	p->pricing->pI_price = QS_DEFAULT_PRICE_PI; p->pricing->pII_price = QS_DEFAULT_PRICE_PII;
	p->pricing->dI_price = QS_DEFAULT_PRICE_DI; p->pricing->dII_price = QS_DEFAULT_PRICE_DII;
	g_p2 = p;
	return p;
}
void mpq_ILLprice_init_pricing_info(mpq_price_info *const pinf)
{	/* as price.c:150 (pointer members NULL, selectors -1) */
	pinf->p_strategy = -1; pinf->d_strategy = -1; pinf->pI_price = -1; pinf->pII_price = -1; pinf->dI_price = -1; pinf->dII_price = -1; pinf->cur_price = -1;
	pinf->p_scaleinf = 0; pinf->d_scaleinf = 0; pinf->pdinfo.norms = 0; pinf->pdinfo.refframe = 0; pinf->psinfo.norms = 0;
	pinf->ddinfo.norms = 0; pinf->ddinfo.refframe = 0; pinf->dsinfo.norms = 0;
	pinf->dmpinfo.gstart = pinf->pmpinfo.gstart = 0; pinf->dmpinfo.gshift = pinf->pmpinfo.gshift = 0; pinf->dmpinfo.gsize = pinf->pmpinfo.gsize = 0;
	pinf->dmpinfo.bucket = pinf->pmpinfo.bucket = 0; pinf->dmpinfo.perm = pinf->pmpinfo.perm = 0; pinf->dmpinfo.infeas = pinf->pmpinfo.infeas = 0;
	mpq_ILLheap_init(&pinf->h); pinf->hineff = 0;
}
void mpq_ILLheap_init(mpq_heap *const h) { h->entry = 0; h->loc = 0; h->key = 0; h->hexist = 0; }
int mpq_ILLlib_newrows(mpq_lpinfo *lp, mpq_ILLlp_basis *B, int num, const mpq_t *rhs, char *sense, const mpq_t *range, const char **names)
{ g_newrows_calls++; g_nr_lp = lp; g_nr_num = num; g_nr_rhs = rhs; g_nr_sense = sense; g_nr_range = range; g_nr_names = names; return rv_or_fail("newrows_fails"); }
int mpq_ILLlib_addcol(mpq_lpinfo *lp, mpq_ILLlp_basis *B, int cnt, int *ind, mpq_t *val, const mpq_t obj, const mpq_t lower, const mpq_t upper, const char *name, int factorok)
{
	int k = g_addcol_calls++;
	if (k < NSMAX) { g_ac_lp[k] = lp; g_ac_B[k] = B; g_ac_cnt[k] = cnt; g_ac_ind[k] = ind; g_ac_val[k] = val; g_ac_obj[k] = NUMV(obj); g_ac_lo[k] = NUMV(lower); g_ac_up[k] = NUMV(upper); g_ac_name[k] = name; g_ac_fok[k] = factorok; }
	/* fact of the real ILLlib_addcol that matters to the caller: the per-column arrays (column map, names, integer marks) have
	 * a CAPACITY structsize >= the number of columns, grown in steps of EXTRA_COLS = 100 */
	if (lp && lp->O && lp->O->structsize < k + 1) lp->O->structsize = k + 1 + (int) (nondet_uint() % 100u);
	return rv_or_fail("addcol_fails");
}
char *ILLutil_str(const char *s) { char *r = qsv_alloc(1); r[0] = 0; return s ? r : 0; }
/* finite-map view of the row-name table: the default objective name "obj" collides iff a row is called "obj";
 * ILLsymboltab_uname makes a name unique, ILLsymboltab_register reports a collision through *existed */
int ILLsymboltab_uname(ILLsymboltab *h, char name[ILL_namebufsize], const char *try_prefix1, const char *try_prefix2) { g_uname_called = 1; return rv_or_fail("uname_fails"); }
int ILLsymboltab_create(ILLsymboltab *h, int init_size) { h->tablesize = 1; return 0; }
int ILLsymboltab_register(ILLsymboltab *h, const char *s, int itemindex, int *the_index, int *existed) { *the_index = 0; *existed = (g_row_named_obj && !g_uname_called); return rv_or_fail("register_fails"); }
void ILLstring_reporter_copy(qsstring_reporter *dest, qsstring_reporter *src) { }
void mpq_QSfree_prob(mpq_QSdata *p) { if (p) g_freed_p2 = 1; }

static int *ints(int n) { return qsv_alloc(sizeof(int) * (size_t) n); }
void harness(void)
{
	mpq_QSdata *p = qsv_alloc(sizeof *p), *p2;
	mpq_ILLlpdata *O = qsv_alloc(sizeof *O);
	mpq_price_info *pr = qsv_alloc(sizeof *pr), prs;
	IN_INT(nstruct); IN_INT(nrows); IN_INT(matsize); IN_INT(objsense); IN_INT(display); IN_INT(scaling); IN_BOOL(has_int); IN_BOOL(has_names); IN_BOOL(has_objname);
	int j, smap[NSMAX], beg[NSMAX], cnt[NSMAX], objv[NSMAX], lov[NSMAX], upv[NSMAX];
	char imark[NSMAX];
	ASSUME(0 <= nstruct && nstruct <= NSMAX && 0 <= nrows && nrows <= NRMAX && 0 <= matsize && matsize <= 64);
	ASSUME(objsense == QS_MIN || objsense == QS_MAX);
	qsv_init_globals();
	p->qslp = O; p->lp = qsv_alloc(sizeof *p->lp); p->lp->O = O; p->pricing = pr; p->basis = 0; p->cache = 0; p->name = 0;
	p->simplex_display = display; p->simplex_scaling = scaling; p->qstatus = QS_LP_UNSOLVED; p->factorok = 0;
	O->nstruct = nstruct; O->nrows = nrows; O->ncols = nstruct + nrows; O->objsense = objsense;
	O->rhs = qsv_nums(nrows); O->sense = qsv_alloc((size_t) nrows); O->rangeval = qsv_nums(nrows); O->rownames = qsv_alloc(sizeof(char *) * (size_t) nrows);
	O->structmap = ints(nstruct); O->colnames = has_names ? qsv_alloc(sizeof(char *) * (size_t) nstruct) : 0;
	O->A.matbeg = ints(nstruct + nrows); O->A.matcnt = ints(nstruct + nrows); O->A.matind = ints(matsize); O->A.matval = qsv_nums(matsize); O->A.matsize = matsize;
	O->obj = qsv_nums(nstruct + nrows); O->lower = qsv_nums(nstruct + nrows); O->upper = qsv_nums(nstruct + nrows);
	O->intmarker = has_int ? qsv_alloc((size_t) nstruct) : 0;
	O->objname = has_objname ? qsv_alloc(2) : 0; if (O->objname) { O->objname[0] = 'o'; O->objname[1] = 0; }
	for (j = 0; j < NSMAX; j++) if (j < nstruct) {
		smap[j] = nondet_int(); ASSUME(0 <= smap[j] && smap[j] < nstruct + nrows); O->structmap[j] = smap[j];
		beg[j] = nondet_int(); cnt[j] = nondet_int(); ASSUME(0 <= beg[j] && beg[j] <= matsize && 0 <= cnt[j] && cnt[j] <= matsize - beg[j]);
		{ int k; for (k = 0; k < NSMAX; k++) if (k < j) ASSUME(smap[k] != smap[j]); }	/* structmap is injective in every problem the API builds */
		O->A.matbeg[smap[j]] = beg[j]; O->A.matcnt[smap[j]] = cnt[j];
		objv[j] = qsv_nondet_payload(); lov[j] = qsv_nondet_payload(); upv[j] = qsv_nondet_payload();
		qsv_setnum(O->obj[smap[j]], objv[j]); qsv_setnum(O->lower[smap[j]], lov[j]); qsv_setnum(O->upper[smap[j]], upv[j]);
		if (has_int) { imark[j] = nondet_char(); O->intmarker[j] = imark[j]; }
		if (has_names) O->colnames[j] = qsv_alloc(2);
	}
	/* the source's pricing info after a solve: every work array may exist */
	pr->p_strategy = nondet_int(); pr->d_strategy = nondet_int(); pr->pI_price = nondet_int(); pr->pII_price = nondet_int(); pr->dI_price = nondet_int(); pr->dII_price = nondet_int(); pr->cur_price = nondet_int();
#define MAYBE_NUMS(f) pr->f = nondet_bool() ? qsv_numarray(1) : 0
#define MAYBE_INTS(f) pr->f = nondet_bool() ? ints(1) : 0
	MAYBE_NUMS(p_scaleinf); MAYBE_NUMS(d_scaleinf); MAYBE_NUMS(pdinfo.norms); MAYBE_INTS(pdinfo.refframe); MAYBE_NUMS(psinfo.norms);
	MAYBE_NUMS(ddinfo.norms); MAYBE_INTS(ddinfo.refframe); MAYBE_NUMS(dsinfo.norms);
	MAYBE_INTS(pmpinfo.gstart); MAYBE_INTS(pmpinfo.gshift); MAYBE_INTS(pmpinfo.gsize); MAYBE_INTS(pmpinfo.bucket); MAYBE_INTS(pmpinfo.perm); MAYBE_NUMS(pmpinfo.infeas);
	MAYBE_INTS(dmpinfo.gstart); MAYBE_INTS(dmpinfo.gshift); MAYBE_INTS(dmpinfo.gsize); MAYBE_INTS(dmpinfo.bucket); MAYBE_INTS(dmpinfo.perm); MAYBE_NUMS(dmpinfo.infeas);
	pr->h.entry = nondet_bool() ? ints(1) : 0; pr->h.loc = nondet_bool() ? ints(1) : 0; pr->h.key = nondet_bool() ? qsv_numarray(1) : 0; pr->h.hexist = nondet_bool();
	qsv_setnum(pr->htrigger, qsv_nondet_payload()); pr->hineff = nondet_int(); pr->init = nondet_char();
	pr->pdinfo.ninit = nondet_int(); pr->ddinfo.ninit = nondet_int();
	prs = *pr;
	{ IN_BOOL(row_named_obj); g_row_named_obj = row_named_obj && !has_objname; }	/* a row may carry the default objective name */

	p2 = mpq_QScopy_prob(p, 0);

	/* ---- independent: the source is untouched ---- */
	ASSERT(p->qslp == O && p->pricing == pr && p->basis == 0 && p->cache == 0 && p->factorok == 0 && p->qstatus == QS_LP_UNSOLVED && p->simplex_display == display && p->simplex_scaling == scaling,
		"C16 independent: the source problem's handle fields are unchanged by copying");
	ASSERT(O->nstruct == nstruct && O->nrows == nrows && O->objsense == objsense, "C16 independent: the source's dimensions and sense are unchanged");
	ASSERT(pr->p_scaleinf == prs.p_scaleinf && pr->d_scaleinf == prs.d_scaleinf && pr->pdinfo.norms == prs.pdinfo.norms && pr->psinfo.norms == prs.psinfo.norms && pr->ddinfo.norms == prs.ddinfo.norms && pr->dsinfo.norms == prs.dsinfo.norms && pr->h.entry == prs.h.entry,
		"C16 independent: the source's pricing arrays are unchanged");
	if (pr->pdinfo.norms) ASSERT(((size_t *) pr->pdinfo.norms)[-1] == 1, "C16 independent: the source's pricing norms are still allocated");
	if (p2) {
		mpq_price_info *q = p2->pricing;
		ASSERT(p2 == g_p2 && p2 != p && p2->qslp != O && q != pr && q != 0, "C16 independent: the copy is a fresh problem");
		/* ---- independent: no pointer of the copy's pricing info aliases the source's ---- */
#define NOSHARE(f) ASSERT(q->f == 0 || (void *) q->f != (void *) prs.f, "C16 independent: copy shares the pricing array " #f " with the source")
		NOSHARE(p_scaleinf); NOSHARE(d_scaleinf); NOSHARE(pdinfo.norms); NOSHARE(pdinfo.refframe); NOSHARE(psinfo.norms);
		NOSHARE(ddinfo.norms); NOSHARE(ddinfo.refframe); NOSHARE(dsinfo.norms);
		NOSHARE(pmpinfo.gstart); NOSHARE(pmpinfo.gshift); NOSHARE(pmpinfo.gsize); NOSHARE(pmpinfo.bucket); NOSHARE(pmpinfo.perm); NOSHARE(pmpinfo.infeas);
		NOSHARE(dmpinfo.gstart); NOSHARE(dmpinfo.gshift); NOSHARE(dmpinfo.gsize); NOSHARE(dmpinfo.bucket); NOSHARE(dmpinfo.perm); NOSHARE(dmpinfo.infeas);
		NOSHARE(h.entry); NOSHARE(h.loc); NOSHARE(h.key);
		ASSERT(p2->qslp->intmarker == 0 || p2->qslp->intmarker != O->intmarker, "C16 independent: integer marks are a fresh array");
		ASSERT(p2->qslp->objname == 0 || p2->qslp->objname != O->objname, "C16 independent: the objective name is a fresh string");
		/* ---- faithful ---- */
		ASSERT(g_newrows_calls == 1 && g_nr_lp == p2->lp && g_nr_num == nrows && g_nr_rhs == (const mpq_t *) O->rhs && g_nr_sense == O->sense && g_nr_range == (const mpq_t *) O->rangeval && g_nr_names == (const char **) O->rownames,
			"C16 faithful: all rows (rhs, sense, range, names) are handed to the copy in one block");
		ASSERT(g_addcol_calls == nstruct, "C16 faithful: one column is added to the copy per structural column");
		for (j = 0; j < NSMAX; j++) if (j < nstruct) {
			ASSERT(g_ac_lp[j] == p2->lp && g_ac_B[j] == 0 && g_ac_fok[j] == 0, "C16 faithful: columns are added to the copy, without basis");
			ASSERT(g_ac_cnt[j] == cnt[j] && g_ac_ind[j] == O->A.matind + beg[j] && g_ac_val[j] == O->A.matval + beg[j], "C16 faithful: the k-th column of the copy gets the entries of the k-th structural column");
			ASSERT(g_ac_obj[j] == objv[j] && g_ac_lo[j] == lov[j] && g_ac_up[j] == upv[j], "C16 faithful: objective coefficient, lower and upper bound of the k-th column");
			ASSERT(g_ac_name[j] == (has_names ? O->colnames[j] : 0), "C16 faithful: name of the k-th column");
			if (has_int) ASSERT(p2->qslp->intmarker != 0 && p2->qslp->intmarker[j] == imark[j], "C16 faithful: integer mark of the k-th column");
#ifdef QSV_CBMC
			if (has_int && p2->qslp->intmarker != 0) ASSERT(__CPROVER_OBJECT_SIZE(p2->qslp->intmarker) >= (size_t) p2->qslp->structsize, "C16/C17: the copy's integer-mark array has the capacity of the copy's other per-column arrays (structsize): the next column added to the copy writes its mark at index nstruct");
#endif
		}
		if (!has_int) ASSERT(p2->qslp->intmarker == 0, "C16 faithful: no integer marks invented");
		ASSERT(p2->qslp->objsense == objsense && p2->simplex_display == display && p2->simplex_scaling == scaling, "C16 faithful: objective sense and display/scaling parameters");
		ASSERT(q->pI_price == prs.pI_price && q->pII_price == prs.pII_price && q->dI_price == prs.dI_price && q->dII_price == prs.dII_price, "C16 faithful: pricing rules");
		ASSERT(NUMV(q->htrigger) == NUMV(prs.htrigger), "C16 faithful: heap trigger parameter");
		ASSERT(p2->factorok == 0 && p2->basis == 0 && p2->cache == 0, "C16: the copy starts without basis, solution or factorization");
		ASSERT(!g_freed_p2, "C16: a returned copy has not been freed");
	} else {
		ASSERT(g_p2 == 0 || g_freed_p2, "C18: a failed copy is released");
		ASSERT(g_callee_failed, "C16 faithful: copying fails only if a library callee failed (every problem can be copied, whatever its row names)");
	}
	COVER_MUST(p2 != 0 && nstruct == NSMAX, "copy_ok");
	REACH_END();
}
QSV_MAIN(harness)
