/* C06 / C18 / C17: ILLlib_getrows (lib.c, REAL, with the REAL ILLlp_rows_init of lpdata.c; behind QSget_rows /
 * QSget_rows_list) on the CONSTRUCTED problem of lib/getcols (2 rows, column a in rows 0 and 1, column b in row 1; one
 * logical per row; logical columns first, LF=1, or last), queried for the row list {1, 0}:
 *   every output describes the rows ASKED FOR, in the order asked: counts, offsets, (external column, value) entries WITHOUT
 *   the logical, right-hand side, sense, range value (0 when the problem has no range array) and the row's own name;
 *   the temporary row view built on the way is released completely (GMP model TOKENS, memory-leak check).
 * Concrete sparsity pattern and list, symbolic values. */
#include <string.h>
#include "qsv.h"
#include "qs_config.h"
#include "logging-private.h"
#include "eg_macros.h"
#include "eg_lpnum.h"
#include "lib_mpq.h"
#include "lpdata_mpq.h"
#ifndef LF
#define LF 1
#endif
extern int qsv_gmp_live;
void harness(void)
{
	mpq_lpinfo *lp = qsv_alloc(sizeof *lp); static mpq_ILLlpdata lpd; mpq_ILLlpdata *O = &lpd;
	static int matbeg[4], matcnt[4], matind[6], structmap[2], rowmap[2], rowlist[2] = { 1, 0 }; static mpq_t matval[6], rhs[2], rng[2];
	static char n0[2] = "p", n1[2] = "q"; static char *rownames[2] = { n0, n1 }; static char sense[2];
	int va0 = nondet_int(), va1 = nondet_int(), vb1 = nondet_int(), r0 = nondet_int(), r1 = nondet_int(), g0v = nondet_int(), g1v = nondet_int(); IN_BOOL(has_range);
	const int a = LF ? 2 : 0, b = LF ? 3 : 1, g0 = LF ? 0 : 2, g1 = LF ? 1 : 3;
	int pos = 0, k, rv, live0, *rcnt = 0, *rbeg = 0, *rind = 0, seen_a = 0, seen_b = 0; mpq_t *rval_ = 0, *orhs = 0, *orng = 0; char *osense = 0, **names = 0;
	qsv_init_globals();
	for (k = 0; k < 6; k++) mpq_init(matval[k]);
	for (k = 0; k < 2; k++) { mpq_init(rhs[k]); mpq_init(rng[k]); }
	for (k = 0; k < 4; k++) {
		matbeg[k] = pos;
		if (k == a) { matcnt[k] = 2; matind[pos] = 0; mpq_set_si(matval[pos], va0, 1UL); pos++; matind[pos] = 1; mpq_set_si(matval[pos], va1, 1UL); pos++; }
		else if (k == b) { matcnt[k] = 1; matind[pos] = 1; mpq_set_si(matval[pos], vb1, 1UL); pos++; }
		else { matcnt[k] = 1; matind[pos] = (k == g0) ? 0 : 1; mpq_set_si(matval[pos], 1, 1UL); pos++; }
	}
	matind[5] = -1;
	mpq_set_si(rhs[0], r0, 1UL); mpq_set_si(rhs[1], r1, 1UL); mpq_set_si(rng[0], g0v, 1UL); mpq_set_si(rng[1], g1v, 1UL); sense[0] = 'L'; sense[1] = 'R';
	lp->O = O; O->nrows = 2; O->ncols = 4; O->nstruct = 2; O->nzcount = 5; O->structmap = structmap; O->rowmap = rowmap; structmap[0] = a; structmap[1] = b; rowmap[0] = g0; rowmap[1] = g1;
	O->A.matbeg = matbeg; O->A.matcnt = matcnt; O->A.matind = matind; O->A.matval = matval; O->A.matrows = 2; O->A.matcols = 4; O->rhs = rhs; O->rangeval = has_range ? &rng[0] : (mpq_t *) 0; O->sense = sense; O->rownames = rownames;
	live0 = qsv_gmp_live;
	rv = mpq_ILLlib_getrows(lp, 2, rowlist, &rcnt, &rbeg, &rind, &rval_, &orhs, &osense, &orng, &names);
	ASSERT(rv == 0, "C06: the rows of a well-formed problem are handed out");
	ASSERT(rcnt[0] == 2 && rcnt[1] == 1 && rbeg[0] == 0 && rbeg[1] == 2, "C06: counts and offsets describe the rows asked for (row 1, then row 0) without their logicals");
	for (k = 0; k < 2; k++) { if (rind[k] == 0 && NUMV(rval_[k]) == va1 && !seen_a) seen_a = 1; else if (rind[k] == 1 && NUMV(rval_[k]) == vb1 && !seen_b) seen_b = 1; else ASSERT(0, "C06: row 1 lists only its own coefficients under their external column indices"); }
	ASSERT(seen_a && seen_b && rind[2] == 0 && NUMV(rval_[2]) == va0, "C06: every coefficient of the rows asked for is handed out, under the external column index");
	ASSERT(NUMV(orhs[0]) == r1 && NUMV(orhs[1]) == r0 && osense[0] == 'R' && osense[1] == 'L' && NUMV(orng[0]) == (has_range ? g1v : 0) && NUMV(orng[1]) == (has_range ? g0v : 0), "C06: right-hand side, sense and range value of each row asked for (range 0 without a range array)");
	ASSERT(names[0][0] == 'q' && names[1][0] == 'p', "C06: each row asked for comes with its own name");
	/* the caller releases what it was given */
	free(rcnt); free(rbeg); free(rind); mpq_EGlpNumFreeArray(rval_); mpq_EGlpNumFreeArray(orhs); mpq_EGlpNumFreeArray(orng); free(osense); free(names[0]); free(names[1]); free(names); free(lp);
	ASSERT(qsv_gmp_live == live0, "C18: the temporary row view and its numbers are released");
	for (k = 0; k < 6; k++) mpq_clear(matval[k]);
	for (k = 0; k < 2; k++) { mpq_clear(rhs[k]); mpq_clear(rng[k]); }
	REACH_END();
}
QSV_MAIN(harness)
