/* C11 "ILLcheck_rawlpdata / bounds check before conversion": the REAL ILLcheck_rawlpdata and ILLraw_check_bounds (static,
 * rawlp.c) on a raw problem without special ordered sets: it is passed on to the conversion iff it has at least one
 * variable, an objective row, and no column whose lower bound exceeds its upper bound (every column is checked, also
 * the last one; infinite bounds included).  BOUND: 0..2 columns, bound values in -2..2 or +-infinity. */
#include <string.h>
#include <stdarg.h>
#include "qsv.h"
#include "qs_config.h"
#include "rawlp_mpq.h"
int __CPROVER_file_local_rawlp_mpq_c_ILLcheck_rawlpdata(mpq_rawlpdata *lp);
static int errors;
int mpq_ILLdata_error(mpq_qserror_collector *c, const char *format, ...) { errors++; return 1; }
const char *mpq_ILLraw_rowname(mpq_rawlpdata *lp, int i) { return "r"; }
const char *mpq_ILLraw_colname(mpq_rawlpdata *lp, int i) { return "c"; }
static int pickb(void) { int v = (int) (nondet_uint() & 7u) - 3; __CPROVER_assume(v <= 3); return v == -3 ? -QSV_INF : v == 3 ? QSV_INF : v; }
void harness(void)
{
	static mpq_rawlpdata raw; mpq_rawlpdata *lp = &raw; static mpq_t lo[2], up[2];
	int n = nondet_int(), obj = nondet_bool() ? 0 : -1, i, rv, bad = 0, l[2], u[2];
	qsv_init_globals();
	ASSUME(0 <= n && n <= 2);
	for (i = 0; i < 2; i++) { l[i] = pickb(); u[i] = pickb(); qsv_setnum(lo[i], l[i]); qsv_setnum(up[i], u[i]); if (i < n && u[i] < l[i]) bad = 1; }
	lp->ncols = n; lp->nrows = 1; lp->objindex = obj; lp->nsos_member = 0; lp->nsos = 0; lp->lower = lo; lp->upper = up; lp->lbind = (char *) lo; lp->ubind = (char *) up; lp->error_collector = 0;
	rv = __CPROVER_file_local_rawlp_mpq_c_ILLcheck_rawlpdata(lp);
	ASSERT((rv == 0) == (n >= 1 && obj != -1 && !bad), "C11: a raw problem is passed on iff it has a variable, an objective and no column with lower bound above upper bound");
	COVER_MUST(rv != 0 && n == 2 && obj == 0 && !(u[0] < l[0]), "only_last_column_bad");
	REACH_END();
}
QSV_MAIN(harness)
