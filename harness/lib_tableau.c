/* C13, extraction / ordering layer only (the LU arithmetic behind ILLbasis_tableau_row is out of reach):
 *   FN_tableau      mpq_ILLlib_tableau (lib.c, REAL): bad row rejected before anything is computed; the basis-inverse
 *                   row is handed out in row order, the tableau row in EXTERNAL column order:
 *                   tabrow[j] = trow[structmap[j]] for structural j, tabrow[nstruct+i] = trow[rowmap[i]] for row i
 *   FN_basis_order  mpq_ILLlib_basis_order: header[i] is the external index of the i-th basic column
 *                   (structural j -> j, logical of row r -> nstruct + r)
 *   FN_qs_gates     QSget_binv_row / QSget_tableau_row / QSget_basis_order (qsopt.c): fail without cache (and basis,
 *                   index range for binv_row) and never reach the library then
 * ILLbasis_tableau_row is a stub that writes recognisable values (position-coded) into the rows it is asked for.
 * BOUND: fixed dimensions NSV x NRV (<= 2 x 2), arbitrary column bijection. */
#include "lib_contracts.h"
#include "qsopt_mpq.h"
struct qsv_ghost qsv_g;
int g_sinfo_freed;
#ifndef NBMAX
#define NBMAX 2
#endif
#ifndef NSV
#define NSV 2
#endif
#ifndef NRV
#define NRV 2
#endif
int g_tr_called, g_tr_row, g_tr_rv, g_lib_called;
static int pick(int lo_, int hi_) { int v = (int) (nondet_uint() & 7u) + lo_; ASSUME(v <= hi_); return v; }
#if !defined(FN_qs_gates)
int mpq_ILLbasis_tableau_row(mpq_lpinfo *lp, int row, mpq_t *brow, mpq_t *trow, mpq_t *rhs, int strict)
{
	int i;
	g_tr_called++; g_tr_row = row;
	for (i = 0; i < NBMAX; i++) if (i < lp->O->nrows) qsv_setnum(brow[i], 100 + i);
	if (trow) for (i = 0; i < 2 * NBMAX; i++) if (i < lp->O->ncols) qsv_setnum(trow[i], 200 + i);
	g_tr_rv = nondet_bool() ? 0 : 1;
	return g_tr_rv;
}
#else
int mpq_ILLlib_tableau(mpq_lpinfo *lp, int row, mpq_t *binv, mpq_t *tabrow) { g_lib_called++; return nondet_int(); }
int mpq_ILLlib_basis_order(mpq_lpinfo *lp, int *header) { g_lib_called++; return nondet_int(); }
#endif
void harness(void)
{
	mpq_lpinfo *lp = qsv_alloc(sizeof *lp);
	mpq_ILLlpdata *O = qsv_alloc(sizeof *O);
	/* dimensions are compile-time constants: the size-header arrays of EGlpNumAllocArray (calloc of a byte-addressed
	 * block with a size_t header) exhaust the solver's memory when their length is symbolic */
	const int nstruct = NSV, nrows = NRV;
	int i, k, ncols, rv, colof[2 * NBMAX];
	qsv_init_globals();
	ncols = nstruct + nrows;
	lp->O = O; O->nstruct = nstruct; O->nrows = nrows; O->ncols = ncols;
	O->structmap = qsv_alloc(sizeof(int) * (size_t) nstruct); O->rowmap = qsv_alloc(sizeof(int) * (size_t) nrows);
	for (i = 0; i < 2 * NBMAX; i++) if (i < ncols) { colof[i] = pick(0, 2 * NBMAX - 1); ASSUME(colof[i] < ncols); for (k = 0; k < i; k++) ASSUME(colof[k] != colof[i]); }
	for (i = 0; i < NBMAX; i++) if (i < nstruct) O->structmap[i] = colof[i];
	for (i = 0; i < NBMAX; i++) if (i < nrows) O->rowmap[i] = colof[nstruct + i];
#if defined(FN_tableau)
	{
		IN_INT(row); IN_BOOL(want_binv); IN_BOOL(want_tab);
		mpq_t *binv = want_binv ? qsv_numarray((size_t) nrows) : 0, *tab = want_tab ? qsv_numarray((size_t) ncols) : 0;
		for (i = 0; i < NBMAX; i++) if (binv && i < nrows) qsv_setnum(binv[i], -1);
		for (i = 0; i < 2 * NBMAX; i++) if (tab && i < ncols) qsv_setnum(tab[i], -1);
		rv = mpq_ILLlib_tableau(lp, row, binv, tab);
		if (row < 0 || row >= nrows) {
			ASSERT(rv != 0 && g_tr_called == 0, "C07/C13: an out-of-range row is rejected before the basis code is asked anything");
			for (i = 0; i < NBMAX; i++) if (binv && i < nrows) ASSERT(NUMV(binv[i]) == -1, "C07: outputs untouched on rejection");
		} else {
			ASSERT(g_tr_called == 1 && g_tr_row == row && rv == g_tr_rv, "C13: the requested row of the inverse is what is computed, and its status is passed on");
			if (rv == 0) {
				for (i = 0; i < NBMAX; i++) if (binv && i < nrows) ASSERT(NUMV(binv[i]) == 100 + i, "C13: binv row handed out entry by entry in row order");
				for (i = 0; i < NBMAX; i++) if (tab && i < nstruct) ASSERT(NUMV(tab[i]) == 200 + O->structmap[i], "C13: tableau entry of structural column j is taken from internal column structmap[j]");
				for (i = 0; i < NBMAX; i++) if (tab && i < nrows) ASSERT(NUMV(tab[nstruct + i]) == 200 + O->rowmap[i], "C13: tableau entry of row i's logical (external position nstruct+i) is taken from internal column rowmap[i]");
			}
		}
	}
#elif defined(FN_basis_order)
	{
		int *hdr = qsv_alloc(sizeof(int) * (size_t) nrows);
		lp->baz = qsv_alloc(sizeof(int) * (size_t) nrows);
		for (i = 0; i < NBMAX; i++) if (i < nrows) { lp->baz[i] = pick(0, 2 * NBMAX - 1); ASSUME(lp->baz[i] < ncols); }
		rv = mpq_ILLlib_basis_order(lp, hdr);
		ASSERT(rv == 0, "C13: basis order is available");
		for (i = 0; i < NBMAX; i++) if (i < nrows) {
			int h = hdr[i];
			ASSERT(0 <= h && h < ncols, "C13: reported basis order entries are external column positions");
			if (h < nstruct) ASSERT(O->structmap[h] == lp->baz[i], "C13: a structural entry of the basis order names the structural whose internal column is basic at that position");
			else ASSERT(O->rowmap[h - nstruct] == lp->baz[i], "C13: a logical entry of the basis order names the row whose logical is basic at that position");
		}
	}
#elif defined(FN_qs_gates)
	{
		mpq_QSdata *p = qsv_alloc(sizeof *p);
		IN_BOOL(has_cache); IN_BOOL(has_basis); IN_INT(indx); IN_INT(which);
		mpq_t *out = qsv_numarray(2 * NBMAX); int hdr[NBMAX];
		p->qslp = O; p->lp = lp; p->cache = has_cache ? qsv_alloc(sizeof *p->cache) : 0; p->basis = has_basis ? qsv_alloc(sizeof *p->basis) : 0;
		ASSUME(0 <= which && which <= 2);
		rv = which == 0 ? mpq_QSget_binv_row(p, indx, out) : which == 1 ? mpq_QSget_tableau_row(p, indx, out) : mpq_QSget_basis_order(p, hdr);
		if (!has_cache) ASSERT(rv != 0 && g_lib_called == 0, "C05/C13: without a cached solution the basis-inverse queries fail and compute nothing");
		if (which == 0 && (!has_basis || indx < 0 || indx >= nrows)) ASSERT(rv != 0 && g_lib_called == 0, "C07: QSget_binv_row rejects a missing basis or an out-of-range row");
	}
#else
#error "select FN_tableau, FN_basis_order or FN_qs_gates"
#endif
	REACH_END();
}
QSV_MAIN(harness)
