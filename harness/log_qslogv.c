/* C20: QSlog / QSlogv (logging.c, REAL) under the contract
 *   handler installed  ==> the handler is called exactly once, with the registered data pointer and the
 *                          COMPLETE NUL-terminated message (all formatted_len characters), and neither
 *                          fprintf nor perror is reached on a path that returns to the caller
 *   no handler         ==> the message goes to stderr (the documented default), exactly once
 * vsnprintf is modelled: it reports an arbitrary formatted length g_len (0..LMAX) and writes
 * min(g_len, size-1) message characters plus the terminating NUL into the buffer it is given; the
 * message characters are observed at a ghost position g_k.  It may also fail (-1).  No dfcc (variadic). */
#include <stdarg.h>
#include <stdio.h>
#include <stdlib.h>
#include "qsv.h"
#include "logging.h"
#include "logging-private.h"
#ifndef LMAX
#define LMAX 70000
#endif
int g_len, g_k, g_vsn_fail_at, g_vsn_calls, g_fprintf_calls, g_fprintf_stderr, g_perror_calls, g_handler_calls, g_handler_ok;
void *g_data;

int vsnprintf(char *s, size_t n, const char *fmt, va_list ap)
{
	int call = g_vsn_calls++;
	if (call == g_vsn_fail_at) return -1;
	if (s != 0 && n > 0) {
		size_t w = (size_t) g_len < n - 1 ? (size_t) g_len : n - 1;
		s[w] = 0;
		if ((size_t) g_k < w) s[g_k] = 'm';
	}
	return g_len;
}
int fprintf(FILE *f, const char *fmt, ...) { g_fprintf_calls++; g_fprintf_stderr = (f == stderr); return 0; }
void perror(const char *s) { g_perror_calls++; }
static void handler(const char *msg, void *data)
{
	g_handler_calls++;
	g_handler_ok = (data == g_data) && msg[g_len] == 0 && (!(g_k < g_len) || msg[g_k] != 0);
}
void harness(void)
{
	IN_BOOL(install); IN_INT(len); IN_INT(k); IN_INT(fail_at);
	int dummy;
	ASSUME(0 <= len && len <= LMAX && 0 <= k && k <= LMAX);
	g_len = len; g_k = k; g_vsn_fail_at = fail_at; g_data = &dummy;
	g_vsn_calls = g_fprintf_calls = g_perror_calls = g_handler_calls = g_handler_ok = 0;
	if (install) QSlog_set_handler(handler, g_data); else QSlog_set_handler(0, 0);
	QSlog("%s: %d", "message", 1);
	/* reached only when QSlog returned to the caller */
	ASSERT(g_perror_calls == 0, "C20: perror is only reached on a path that aborts (never returns to the caller)");
	if (install) {
		ASSERT(g_handler_calls == 1, "C20: with a handler installed every diagnostic is delivered to the handler exactly once");
		ASSERT(g_handler_ok, "C20: the handler receives the registered data pointer and the complete NUL-terminated message");
		ASSERT(g_fprintf_calls == 0, "C20: with a handler installed nothing is written to stderr");
	} else {
		ASSERT(g_handler_calls == 0 && g_fprintf_calls == 1 && g_fprintf_stderr, "C20: without a handler the message goes to stderr once");
	}
	REACH_END();
}
QSV_MAIN(harness)
