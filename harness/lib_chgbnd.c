/* mpq_ILLlib_chgbnd under contract_ILLlib_chgbnd (C06 single-entry edit, C07 rejection + frame) */
#include "lib_contracts.h"
struct qsv_ghost qsv_g;
int g_sinfo_freed;
void mpq_ILLlp_sinfo_free(mpq_ILLlp_sinfo *s) { g_sinfo_freed = 1; }

void harness(void)
{
	struct qsv_sizes sz;
	mpq_ILLlpdata *O = qsv_mk_lpdata(&sz, QF_STRUCTMAP | QF_BOUNDS);
	mpq_lpinfo *lp = qsv_mk_lpinfo(O);
	IN_INT(indx); IN_INT(lu);
	mpq_t bnd;
	int rv, col = -1;
	{ IN_INT(bnd_v); qsv_setnum(bnd, bnd_v); }
	qsv_wf_struct_at(O, indx);
	if (0 <= indx && indx < sz.nstruct) col = O->structmap[indx];
	rv = mpq_ILLlib_chgbnd(lp, indx, lu, bnd);
	/* harness-side restatement of the main postconditions (what the native replay evaluates) */
	ASSERT(!(indx < 0 || indx >= sz.nstruct) || rv != 0, "C07: out-of-range column index is rejected");
	ASSERT(VALID_LU(lu) || rv != 0, "C07: illegal bound selector is rejected");
	ASSERT(!(rv == 0 && (lu == 'L' || lu == 'B')) || NUMV(O->lower[col]) == NUMV(bnd), "C06: lower bound stored");
	ASSERT(!(rv == 0 && (lu == 'U' || lu == 'B')) || NUMV(O->upper[col]) == NUMV(bnd), "C06: upper bound stored");
	REACH_END();
}
QSV_MAIN(harness)
