/* C07 "parameter validation": the REAL QSset_param / QSget_param (qsopt.c) for EVERY parameter code and EVERY value.
 *   set: accepted iff the code is one of the five integer parameters and the value lies in that parameter's documented
 *        domain (primal pricing 1..4, dual pricing 6..9, display 0..3, iteration limit > 0, scaling 0/1); an accepted value
 *        is what QSget_param then returns; a rejected call leaves EVERY parameter exactly as it was
 *   get: an unknown code or a missing result pointer is rejected and the result variable is not written
 * Loop-free, full input domain: unbounded. */
#include "qsv.h"
#include "qs_config.h"
#include "qsopt_mpq.h"
#include "lpdefs_mpq.h"
struct snap { int pI, pII, dI, dII, disp, maxiter, scal; };
static struct snap take(mpq_QSdata *p) { struct snap s = { p->pricing->pI_price, p->pricing->pII_price, p->pricing->dI_price, p->pricing->dII_price, p->simplex_display, p->lp->maxiter, p->simplex_scaling }; return s; }
static int same(struct snap a, struct snap b) { return a.pI == b.pI && a.pII == b.pII && a.dI == b.dI && a.dII == b.dII && a.disp == b.disp && a.maxiter == b.maxiter && a.scal == b.scal; }
void harness(void)
{
	mpq_QSdata *p = qsv_alloc(sizeof *p);
	IN_INT(which); IN_INT(value); IN_INT(which2); IN_BOOL(give_ptr);
	int rv, got = 12345, valid;
	struct snap before, after;
	p->qslp = qsv_alloc(sizeof *p->qslp); p->lp = qsv_alloc(sizeof *p->lp); p->pricing = qsv_alloc(sizeof *p->pricing);
	p->pricing->pI_price = nondet_int(); p->pricing->pII_price = nondet_int(); p->pricing->dI_price = nondet_int(); p->pricing->dII_price = nondet_int();
	p->simplex_display = nondet_int(); p->lp->maxiter = nondet_int(); p->simplex_scaling = nondet_int();
	before = take(p);
	valid = (which == QS_PARAM_PRIMAL_PRICING && value >= QS_PRICE_PDANTZIG && value <= QS_PRICE_PMULTPARTIAL)
	     || (which == QS_PARAM_DUAL_PRICING && value >= QS_PRICE_DDANTZIG && value <= QS_PRICE_DDEVEX)
	     || (which == QS_PARAM_SIMPLEX_DISPLAY && value >= 0 && value <= 3)
	     || (which == QS_PARAM_SIMPLEX_MAX_ITERATIONS && value > 0)
	     || (which == QS_PARAM_SIMPLEX_SCALING && (value == 0 || value == 1));
	rv = mpq_QSset_param(p, which, value);
	after = take(p);
	ASSERT((rv == 0) == valid, "C07: a parameter value is accepted iff the code names an integer parameter and the value lies in its documented domain");
	if (rv != 0) ASSERT(same(before, after), "C07: a rejected parameter change leaves every parameter exactly as it was");
	else {
		int back = -1, r2 = mpq_QSget_param(p, which, &back);
		ASSERT(r2 == 0 && back == value, "C06: an accepted parameter value is the one QSget_param returns");
	}
	rv = mpq_QSget_param(p, which2, give_ptr ? &got : 0);
	ASSERT((rv == 0) == (give_ptr && (which2 == QS_PARAM_PRIMAL_PRICING || which2 == QS_PARAM_DUAL_PRICING || which2 == QS_PARAM_SIMPLEX_DISPLAY || which2 == QS_PARAM_SIMPLEX_MAX_ITERATIONS || which2 == QS_PARAM_SIMPLEX_SCALING)),
		"C07: QSget_param rejects an unknown code and a missing result pointer");
	if (rv != 0) ASSERT(got == 12345, "C07: a rejected query does not write its result variable");
	ASSERT(same(after, take(p)), "frame: a query changes no parameter");
	REACH_END();
}
QSV_MAIN(harness)
