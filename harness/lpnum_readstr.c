/* mpq_EGlpNumReadStrXc (eg_lpnum.c, REAL) and mpq_ILLget_value (read_lp.c, REAL) -- C10 / C11.
 *
 * FN_wellformed (C10 "every numeric literal becomes exactly the rational it spells"):
 *   the harness CONSTRUCTS an arbitrary literal   number ['/' number] ,
 *   number := [+|-] digits{0..ID} ['.' digits{0..FD}] [(e|E) [+|-] digit]   (at least one mantissa digit),
 *   followed by an arbitrary terminator that cannot continue a literal, and computes the rational it
 *   denotes with plain 64-bit integer arithmetic (independent of the scanner's state machine).
 *   Postcondition: the whole literal is consumed and  var == value  exactly (cross-multiplication);
 *   a zero divisor is rejected (0 characters consumed, var untouched) -- never divided by.
 *   ILLget_value: 0 consumed => coefficient 1 ("omitted coefficients are 1"), else the scanned value.
 * FN_anybytes (C11 safety): every string of at most NB bytes over the scanner's alphabet plus
 *   terminators: no division by zero, no out-of-bounds read, result consumes at most the string.
 * BOUNDED: ID=2, FD=1, one exponent digit <= 1 resp. NB=5 without exponent marker;
 * EXACT GMP model, narrow variant (32-bit pair arithmetic, operands asserted below 2^15, results below 2^30).
 */
#include "qsv.h"
#include <string.h>
#include "qs_config.h"
#include "eg_lpnum.h"
#include "read_lp_mpq.h"
#ifndef ID
#define ID 2
#endif
#ifndef FD
#define FD 1
#endif
#ifndef MAXE
#define MAXE 1
#endif
static int pick(int lo_, int hi_) { int v = (int) (nondet_uint() & 15u) + lo_; ASSUME(v <= hi_); return v; }
static int p10(int e) { return e <= 0 ? 1 : e == 1 ? 10 : e == 2 ? 100 : 1000; }

/* append one number to buf at *pos; returns its value as num/den (den > 0) */
static int mulp10(int x, int k) { return k <= 0 ? x : k == 1 ? x * 10 : k == 2 ? x * 100 : k == 3 ? x * 1000 : x * 10000; }
/* value = num / 10^ld */
static void gen_number(char *buf, int *pos, int *num, int *ld)
{
	int sign = pick(0, 2), nid = pick(0, ID), nfd, has_dot = pick(0, 1), has_exp = pick(0, 1), i, e = 0, esign = 0;
	int m = 0;
	if (sign == 1) buf[(*pos)++] = '+';
	if (sign == 2) buf[(*pos)++] = '-';
	for (i = 0; i < ID; i++) if (i < nid) { int d = pick(0, 9); buf[(*pos)++] = (char) ('0' + d); m = m * 10 + d; }
	nfd = has_dot ? pick(0, FD) : 0;
	ASSUME(nid + nfd >= 1);
	if (has_dot) buf[(*pos)++] = '.';
	for (i = 0; i < FD; i++) if (i < nfd) { int d = pick(0, 9); buf[(*pos)++] = (char) ('0' + d); m = m * 10 + d; }
	if (has_exp) {
		buf[(*pos)++] = pick(0, 1) ? 'e' : 'E';
		esign = pick(0, 2);
		if (esign == 1) buf[(*pos)++] = '+';
		if (esign == 2) buf[(*pos)++] = '-';
		e = pick(0, 9); buf[(*pos)++] = (char) ('0' + e);
		ASSUME(e <= MAXE);
	}
	*num = (sign == 2) ? -m : m; *ld = nfd;
	if (has_exp) { if (esign == 2) *ld += e; else *num = mulp10(*num, e); }
}

void harness(void)
{
	char buf[32];
	int pos = 0, n;
	mpq_t var;
	qsv_init_globals();
#if defined(FN_wellformed)
	int n0, l0, n1 = 1, l1 = 0, en, ed;
	IN_BOOL(has_div); IN_CHAR(term);
#ifdef NODIV
	ASSUME(!has_div);
#endif
#ifdef DIV
	ASSUME(has_div);
#endif
	IN_INT(old_v); IN_BOOL(via_get_value);
	gen_number(buf, &pos, &n0, &l0);
	if (has_div) { buf[pos++] = '/'; gen_number(buf, &pos, &n1, &l1); }
	/* the terminator must not be able to continue the literal */
	ASSUME(!(term >= '0' && term <= '9') && term != '.' && term != 'e' && term != 'E' && term != '+' && term != '-' && term != '/');
	buf[pos] = term; buf[pos + 1] = 0;
	en = mulp10(n0, l1); ed = mulp10(n1, l0);		/* (n0/10^l0) / (n1/10^l1) = (n0*10^l1) / (n1*10^l0), the pair the exact model computes */
	if (ed < 0) { en = -en; ed = -ed; }
	mpq_init(var); NUMV(var) = old_v; DENV(var) = 1;
	ASSUME(-1000 < old_v && old_v < 1000);
	if (via_get_value) {
		n = mpq_ILLget_value(buf, &var);
		if (n == 0) ASSERT(NUMV(var) == 1 && DENV(var) == 1, "C10: when no number is read the coefficient is 1 (omitted coefficients are 1)");
	} else {
		n = mpq_EGlpNumReadStrXc(var, buf);
		if (n == 0) ASSERT(NUMV(var) == old_v && DENV(var) == 1, "C10/C11: when no number is read the output is untouched");
	}
	if (n1 == 0) {
		ASSERT(n == 0, "C11: a literal with a zero divisor is rejected (no characters consumed), never divided by");
	} else {
		ASSERT(n == pos, "C10: the whole literal is consumed and nothing beyond it");
		ASSERT(NUMV(var) == en && DENV(var) == ed, "C10: the literal becomes exactly the rational it spells");
	}
#ifndef NODIV
	COVER_MUST(has_div && n1 != 0 && l1 > 0 && l0 > 0, "fraction_of_decimals");
	COVER_MUST(n1 == 0, "zero_divisor");
#endif
#elif defined(FN_anybytes)
#ifndef NB
#define NB 5
#endif
	int i;
	static const char alpha[8] = { '0', '7', '.', '+', '-', '/', ' ', 'x' };
	IN_INT(len);
	ASSUME(0 <= len && len <= NB);
	for (i = 0; i < NB; i++) if (i < len) buf[i] = alpha[nondet_uint() & 7u];
	buf[len] = 0;
	mpq_init(var);
	{
		extern int qsv_gmp_live; int live0 = qsv_gmp_live;
		n = mpq_EGlpNumReadStrXc(var, buf);
		ASSERT(qsv_gmp_live == live0, "C18: the scanner clears every temporary number on every path, accepted or rejected (meaningful in the TOKENS variant of the model)");
	}
	ASSERT(0 <= n && n <= len, "C11: the scanner consumes at most the string");
	{ int anyd = 0; for (i = 0; i < NB; i++) if (i < n && buf[i] >= '0' && buf[i] <= '9') anyd = 1;
	  ASSERT(n == 0 || anyd, "C10/C11: what is consumed as a number contains at least one digit (a lone sign or dot is not a number)"); }
	ASSERT(DENV(var) != 0, "C11: the result is a rational with non-zero denominator");
#ifdef QSV_GMP_TOKENS
	mpq_clear(var);
#endif
#else
#error "select FN_wellformed or FN_anybytes"
#endif
	REACH_END();
}
QSV_MAIN(harness)
