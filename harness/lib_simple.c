/* harnesses for the loop-free / simple-loop functions of lib.c; one section per function,
 * selected with -DFN_<name>.  Each section builds an arbitrary well-formed state, calls the REAL
 * function (whose contract is enforced by goto-instrument), and restates the main postconditions
 * as plain assertions so that the native replay can evaluate them too. */
#include "lib_contracts.h"
struct qsv_ghost qsv_g;
int g_sinfo_freed;
void mpq_ILLlp_sinfo_free(mpq_ILLlp_sinfo *s) { g_sinfo_freed = 1; }
void mpq_ILLlp_rows_clear(mpq_ILLlp_rows *r) { }

#define GHOST_COL(sz) IN_INT(gc); qsv_g.gc = gc; ASSUME(0 <= gc && gc < (sz).nstruct)
#define GHOST_ROW(sz) IN_INT(gr); qsv_g.gr = gr; ASSUME(0 <= gr && gr < (sz).nrows)

void harness(void)
{
	struct qsv_sizes sz;
	mpq_ILLlpdata *O;
	mpq_lpinfo *lp;
	int rv;
#if defined(FN_getbnd)
	O = qsv_mk_lpdata(&sz, QF_STRUCTMAP | QF_BOUNDS); lp = qsv_mk_lpinfo(O);
	{
		IN_INT(indx); IN_INT(lu); IN_INT(old_v);
		mpq_t bnd;
		qsv_setnum(bnd, old_v);
		qsv_wf_struct_at(O, indx);
		rv = mpq_ILLlib_getbnd(lp, indx, lu, &bnd);
		ASSERT(!(indx < 0 || indx >= sz.nstruct) || rv != 0, "C07: out-of-range column index is rejected");
		ASSERT(!(indx < 0 || indx >= sz.nstruct) || NUMV(bnd) == old_v, "C07: output untouched on rejection");
		ASSERT(!(rv == 0 && lu == 'L') || NUMV(bnd) == NUMV(O->lower[O->structmap[indx]]), "C06: lower bound returned");
		ASSERT(!(rv == 0 && lu == 'U') || NUMV(bnd) == NUMV(O->upper[O->structmap[indx]]), "C06: upper bound returned");
	}
#elif defined(FN_chgobj)
	O = qsv_mk_lpdata(&sz, QF_STRUCTMAP | QF_OBJ); lp = qsv_mk_lpinfo(O);
	{
		IN_INT(indx); IN_INT(coef_v);
		mpq_t coef;
		qsv_setnum(coef, coef_v);
		qsv_wf_struct_at(O, indx);
		rv = mpq_ILLlib_chgobj(lp, indx, coef);
		ASSERT((0 <= indx && indx < sz.nstruct) == (rv == 0), "C07: accepted iff the column index is in range");
		ASSERT(rv != 0 || NUMV(O->obj[O->structmap[indx]]) == coef_v, "C06: objective coefficient stored");
	}
#elif defined(FN_chgrhs)
	O = qsv_mk_lpdata(&sz, QF_RHS); lp = qsv_mk_lpinfo(O);
	{
		IN_INT(indx); IN_INT(coef_v);
		mpq_t coef;
		qsv_setnum(coef, coef_v);
		rv = mpq_ILLlib_chgrhs(lp, indx, coef);
		ASSERT((0 <= indx && indx < sz.nrows) == (rv == 0), "C07: accepted iff the row index is in range");
		ASSERT(rv != 0 || NUMV(O->rhs[indx]) == coef_v, "C06: rhs stored");
	}
#elif defined(FN_getrhs)
	O = qsv_mk_lpdata(&sz, QF_RHS); lp = qsv_mk_lpinfo(O);
	{
		mpq_t *out = qsv_nums(sz.nrows);
		GHOST_ROW(sz);
		rv = mpq_ILLlib_getrhs(lp, out);
		ASSERT(rv == 0 && NUMV(out[gr]) == NUMV(O->rhs[gr]), "C06: rhs[r] returned for every row r");
	}
#elif defined(FN_getsenses)
	O = qsv_mk_lpdata(&sz, QF_SENSE); lp = qsv_mk_lpinfo(O);
	{
		char *out = qsv_alloc(sz.nrows);
		GHOST_ROW(sz);
		rv = mpq_ILLlib_getsenses(lp, out);
		ASSERT(rv == 0 && out[gr] == O->sense[gr], "C06: sense[r] returned for every row r");
	}
#elif defined(FN_getintflags)
	{
		IN_BOOL(has_int);
		O = qsv_mk_lpdata(&sz, has_int ? QF_INTMARK : 0); lp = qsv_mk_lpinfo(O);
	}
	{
		int *out = qsv_alloc(sizeof(int) * sz.nstruct);
		GHOST_COL(sz);
		rv = mpq_ILLlib_getintflags(lp, out);
		ASSERT(rv == 0 && out[gc] == ((O->intmarker && O->intmarker[gc]) ? 1 : 0), "C06: integrality flag returned");
	}
#elif defined(FN_getobj)
	O = qsv_mk_lpdata(&sz, QF_STRUCTMAP | QF_OBJ); lp = qsv_mk_lpinfo(O);
	{
		mpq_t *out = qsv_nums(sz.nstruct);
		GHOST_COL(sz);
		qsv_wf_struct_all(O);
		rv = mpq_ILLlib_getobj(lp, out);
		ASSERT(rv == 0 && NUMV(out[gc]) == NUMV(O->obj[O->structmap[gc]]), "C06: obj[k] is the stored coefficient of column k");
	}
#elif defined(FN_getbnds)
	O = qsv_mk_lpdata(&sz, QF_STRUCTMAP | QF_BOUNDS); lp = qsv_mk_lpinfo(O);
	{
		IN_BOOL(want_l); IN_BOOL(want_u);
		mpq_t *lo = want_l ? qsv_nums(sz.nstruct) : 0, *up = want_u ? qsv_nums(sz.nstruct) : 0;
		GHOST_COL(sz);
		qsv_wf_struct_all(O);
		rv = mpq_ILLlib_getbnds(lp, lo, up);
		ASSERT(rv == 0, "C06: query succeeds");
		ASSERT(!lo || NUMV(lo[gc]) == NUMV(O->lower[O->structmap[gc]]), "C06: lower[k] returned");
		ASSERT(!up || NUMV(up[gc]) == NUMV(O->upper[O->structmap[gc]]), "C06: upper[k] returned");
	}
#elif defined(FN_getobj_list)
	O = qsv_mk_lpdata(&sz, QF_STRUCTMAP | QF_OBJ); lp = qsv_mk_lpinfo(O);
	{
		IN_INT(num); IN_INT(gk); IN_INT(col_gk);
		int *list; mpq_t *out;
		ASSUME(0 <= num && num <= QSV_MAPCAP && 0 <= gk && gk < num);
		list = qsv_alloc(sizeof(int) * num); out = qsv_nums(num);
		list[gk] = col_gk; qsv_g.gk = gk;
		qsv_wf_struct_all(O);
		rv = mpq_ILLlib_getobj_list(lp, num, list, out);
		ASSERT(!(col_gk < 0 || col_gk >= sz.nstruct) || rv != 0, "C07: a list with an out-of-range column is rejected");
		ASSERT(rv != 0 || NUMV(out[gk]) == NUMV(O->obj[O->structmap[col_gk]]), "C06: obj of the k-th listed column returned");
	}
#elif defined(FN_getbnds_list)
	O = qsv_mk_lpdata(&sz, QF_STRUCTMAP | QF_BOUNDS); lp = qsv_mk_lpinfo(O);
	{
		IN_INT(num); IN_INT(gk); IN_INT(col_gk); IN_BOOL(want_l); IN_BOOL(want_u);
		int *list; mpq_t *lo, *up;
		ASSUME(0 <= num && num <= QSV_MAPCAP && 0 <= gk && gk < num);
		list = qsv_alloc(sizeof(int) * num);
		lo = want_l ? qsv_nums(num) : 0; up = want_u ? qsv_nums(num) : 0;
		list[gk] = col_gk; qsv_g.gk = gk;
		qsv_wf_struct_all(O);
		rv = mpq_ILLlib_getbnds_list(lp, num, list, lo, up);
		ASSERT(!(col_gk < 0 || col_gk >= sz.nstruct) || rv != 0, "C07: a list with an out-of-range column is rejected");
		ASSERT(rv != 0 || !lo || NUMV(lo[gk]) == NUMV(O->lower[O->structmap[col_gk]]), "C06: lower of the k-th listed column");
		ASSERT(rv != 0 || !up || NUMV(up[gk]) == NUMV(O->upper[O->structmap[col_gk]]), "C06: upper of the k-th listed column");
	}
#elif defined(FN_solution)
	/* C01/C05: the accessor serves exactly the cached (certified) vectors */
	O = qsv_mk_lpdata(&sz, 0); lp = qsv_mk_lpinfo(O);
	{
		mpq_ILLlp_cache *C = qsv_alloc(sizeof *C);
		IN_BOOL(wv); IN_BOOL(wx); IN_BOOL(wpi); IN_BOOL(wsl); IN_BOOL(wrc); IN_INT(gk);
		mpq_t val, *x = wx ? qsv_nums(sz.nstruct) : 0, *rc = wrc ? qsv_nums(sz.nstruct) : 0, *pi = wpi ? qsv_nums(sz.nrows) : 0, *sl = wsl ? qsv_nums(sz.nrows) : 0;
		C->nstruct = sz.nstruct; C->nrows = sz.nrows; C->status = 1;
		C->x = qsv_nums(sz.nstruct); C->rc = qsv_nums(sz.nstruct); C->pi = qsv_nums(sz.nrows); C->slack = qsv_nums(sz.nrows);
		qsv_setnum(C->val, qsv_nondet_payload()); qsv_setnum(val, 0);
		ASSUME(0 <= gk); qsv_g.gk = gk;
		rv = mpq_ILLlib_solution(lp, C, wv ? &val : 0, x, pi, sl, rc);
		ASSERT(rv == 0, "C01: a cached solution is served");
		if (wv) ASSERT(NUMV(val) == NUMV(C->val), "C01: the objective value returned is the cached (certified) one");
		if (wx && gk < sz.nstruct) ASSERT(NUMV(x[gk]) == NUMV(C->x[gk]), "C01: x[k] returned is the cached x[k] for every k");
		if (wrc && gk < sz.nstruct) ASSERT(NUMV(rc[gk]) == NUMV(C->rc[gk]), "C01: rc[k] returned is the cached rc[k] for every k");
		if (wpi && gk < sz.nrows) ASSERT(NUMV(pi[gk]) == NUMV(C->pi[gk]), "C01: pi[k] returned is the cached pi[k] for every k");
		if (wsl && gk < sz.nrows) ASSERT(NUMV(sl[gk]) == NUMV(C->slack[gk]), "C01: slack[k] returned is the cached slack[k] for every k");
	}
#elif defined(FN_getbasis)
	/* C12/C14: the basis handed to the caller is the solver's basis, status by status */
	O = qsv_mk_lpdata(&sz, QF_STRUCTMAP | QF_ROWMAP | QF_RANGE); lp = qsv_mk_lpinfo(O);
	{
		char *cstat = qsv_alloc(sz.nstruct ? sz.nstruct : 1), *rstat = qsv_alloc(sz.nrows ? sz.nrows : 1);
		IN_BOOL(has_range); IN_INT(basisid);
		GHOST_COL(sz); GHOST_ROW(sz);
		if (!has_range) O->rangeval = 0;
		lp->basisid = basisid; lp->vstat = qsv_alloc(sizeof(int) * (size_t) (sz.colsize ? sz.colsize : 1));
		qsv_wf_struct_all(O); qsv_wf_rowmap_all(O);
		{
			int vc = lp->vstat[O->structmap[gc]], vr = lp->vstat[O->rowmap[gr]], ranged = O->rangeval != 0 && NUMV(O->rangeval[gr]) != 0;
			rv = mpq_ILLlib_getbasis(lp, cstat, rstat);
			ASSERT(!(basisid == -1) || rv != 0, "C07/C12: no basis is reported for an unsolved or modified problem");
			if (rv == 0) {
				ASSERT(cstat[gc] == (vc == STAT_BASIC ? QS_COL_BSTAT_BASIC : vc == STAT_LOWER ? QS_COL_BSTAT_LOWER : vc == STAT_UPPER ? QS_COL_BSTAT_UPPER : QS_COL_BSTAT_FREE) && vc >= STAT_BASIC && vc <= STAT_ZERO,
					"C12: every column status returned is the solver's status of that column (through the column map)");
				ASSERT(rstat[gr] == (vr == STAT_BASIC ? QS_ROW_BSTAT_BASIC : (vr == STAT_UPPER && ranged) ? QS_ROW_BSTAT_UPPER : QS_ROW_BSTAT_LOWER) && (vr == STAT_BASIC || vr == STAT_LOWER || vr == STAT_UPPER),
					"C12: every row status returned is the status of the row's logical column (at upper only for ranged rows)");
			}
			COVER_MUST(rv == 0 && rstat[gr] == QS_ROW_BSTAT_UPPER, "ranged_row_at_upper");
		}
	}
#else
#error "select a function with -DFN_<name>"
#endif
	REACH_END();
}
QSV_MAIN(harness)
