/* C06 / C05 / C07: row sense and range edits (lib.c, REAL: mpq_ILLlib_chgsense, mpq_ILLlib_chgrange).
 * A row's sense and range are stored twice: in sense[] / rangeval[] (what the query API reports) and in the row's
 * logical column (coefficient and bounds: what the simplex solves).  Representation invariant, from ILLlib_addrow
 * (lib.c:1273-1288, 1306-1309):   L: coef +1, [0,+inf]   G: coef -1, [0,+inf]   E: coef +1, [0,0]   R: coef -1?, [0,range]
 * (addrow gives R the coefficient -1; chgsense gives +1 -- both describe an interval, the bounds carry the range), and the
 * range value of a non-ranged row is 0.  Contract: after a successful edit the two copies agree for EVERY row, rows not
 * named are untouched; an out-of-range row index or illegal sense is rejected and NOTHING is changed.
 * BOUND: 2 rows, lists of at most 2 entries. */
#include "lib_contracts.h"
struct qsv_ghost qsv_g;
int g_sinfo_freed;
void mpq_ILLlp_sinfo_free(mpq_ILLlp_sinfo *s) { g_sinfo_freed = 1; }
void mpq_ILLlp_rows_clear(mpq_ILLlp_rows *r) { }
#define NR 2
#define NC 3
static int pick(int lo_, int hi_) { int v = (int) (nondet_uint() & 7u) + lo_; ASSUME(v <= hi_); return v; }
static mpq_ILLlpdata *O;
static char s0[NR]; static int rng0[NR], up0[NR], lo0[NR], cf0[NR];
static int agree(int r)	/* do the two copies of row r's sense / range agree? */
{
	int lc = O->rowmap[r], k = O->A.matbeg[lc], up = NUMV(O->upper[lc]), lo = NUMV(O->lower[lc]), cf = NUMV(O->A.matval[k]), rg = O->rangeval ? NUMV(O->rangeval[r]) : 0;
	char s = O->sense[r];
	if (lo != 0 || O->A.matcnt[lc] != 1 || O->A.matind[k] != r) return 0;
	if (s == 'L') return cf == 1 && up == QSV_INF && rg == 0;
	if (s == 'G') return cf == -1 && up == QSV_INF && rg == 0;
	if (s == 'E') return cf == 1 && up == 0 && rg == 0;
	if (s == 'R') return cf == -1 && up == rg;	/* a ranged row is rhs <= a.x <= rhs + range: a.x - s = rhs with 0 <= s <= range (as ILLlib_addrow and the readers store it) */
	return 0;
}
static void build(void)
{
	int r; mpq_ILLmatrix *A;
	O = qsv_alloc(sizeof *O); A = &O->A;
	O->nrows = NR; O->nstruct = 1; O->ncols = NC; O->rowsize = NR; O->colsize = NC; O->rA = 0; O->sinfo = 0;
	O->rowmap = qsv_alloc(sizeof(int) * NR); O->sense = qsv_alloc(NR); O->lower = qsv_numarray(NC); O->upper = qsv_numarray(NC);
	O->rangeval = nondet_bool() ? qsv_numarray(NR) : 0;
	A->matrows = NR; A->matcols = NC; A->matbeg = qsv_alloc(sizeof(int) * NC); A->matcnt = qsv_alloc(sizeof(int) * NC); A->matind = qsv_alloc(sizeof(int) * NC); A->matval = qsv_numarray(NC); A->matsize = NC; A->matfree = 0;
	{ int first = nondet_bool(); O->rowmap[0] = first ? 1 : 2; O->rowmap[1] = first ? 2 : 1; }
	A->matbeg[0] = 0; A->matcnt[0] = 0; A->matind[0] = 1;
	for (r = 0; r < NR; r++) {
		int lc = O->rowmap[r]; char s = "LGER"[pick(0, 3)];
		A->matbeg[lc] = lc; A->matcnt[lc] = 1; A->matind[lc] = r; O->sense[r] = s;
		qsv_setnum(O->lower[lc], 0);
		if (s == 'R') { int rg = qsv_nondet_payload(); ASSUME(O->rangeval != 0 && rg >= 0); qsv_setnum(O->rangeval[r], rg); qsv_setnum(O->upper[lc], rg); qsv_setnum(A->matval[lc], -1); }
		else { if (O->rangeval) qsv_setnum(O->rangeval[r], 0); qsv_setnum(O->upper[lc], s == 'E' ? 0 : QSV_INF); qsv_setnum(A->matval[lc], s == 'G' ? -1 : 1); }
		ASSERT(agree(r), "harness: the initial state satisfies the representation invariant");
		s0[r] = s; rng0[r] = O->rangeval ? NUMV(O->rangeval[r]) : 0; up0[r] = NUMV(O->upper[lc]); lo0[r] = 0; cf0[r] = NUMV(A->matval[lc]);
	}
}
static int untouched(int r) { int lc = O->rowmap[r]; return O->sense[r] == s0[r] && (O->rangeval ? NUMV(O->rangeval[r]) : 0) == rng0[r] && NUMV(O->upper[lc]) == up0[r] && NUMV(O->lower[lc]) == 0 && NUMV(O->A.matval[O->A.matbeg[lc]]) == cf0[r]; }
void harness(void)
{
	mpq_lpinfo *lp; int rv, r;
	qsv_init_globals();
	build();
	lp = qsv_mk_lpinfo(O);
#if defined(FN_chgsense)
	{
		int num = pick(0, 2), list[2], valid = 1, i; char sn[2];
		for (i = 0; i < 2; i++) { list[i] = pick(0, 3) - 1; sn[i] = "LGERx"[pick(0, 4)]; }
		if (num == 2) ASSUME(list[0] != list[1]);
		for (i = 0; i < 2; i++) if (i < num && (list[i] < 0 || list[i] >= NR || sn[i] == 'x')) valid = 0;
		rv = mpq_ILLlib_chgsense(lp, num, list, sn);
		ASSERT((rv == 0) == valid, "C07: accepted iff every listed row index is in range and every sense is one of L, G, E, R");
		if (rv != 0) for (r = 0; r < NR; r++) ASSERT(untouched(r), "C07: a rejected sense change leaves every row (sense, range, logical column) untouched");
		else for (r = 0; r < NR; r++) {
			int named = -1; for (i = 0; i < 2; i++) if (i < num && list[i] == r) named = i;
			if (named < 0) ASSERT(untouched(r), "C06: rows that are not named keep sense, range and logical column");
			else { ASSERT(O->sense[r] == sn[named], "C06: the sense reported for a changed row is the one given"); ASSERT(agree(r), "C05/C06: after a sense change the row's logical column (coefficient, bounds) and its range value describe the sense that is reported"); }
		}
	}
#elif defined(FN_chgrange)
	{
		IN_INT(indx); IN_INT(v); mpq_t coef;
		ASSUME(-1 <= indx && indx <= NR && 0 <= v && v < 1000);
		qsv_setnum(coef, v);
		rv = mpq_ILLlib_chgrange(lp, indx, coef);
		ASSERT((rv == 0) == (0 <= indx && indx < NR && s0[indx] == 'R'), "C07: accepted iff the row index is in range and the row is a ranged row");
		for (r = 0; r < NR; r++) {
			if (rv == 0 && r == indx) { ASSERT(O->rangeval != 0 && NUMV(O->rangeval[r]) == v, "C06: the range reported for the row is the one given"); ASSERT(agree(r), "C05/C06: after a range change the logical column's upper bound is the new range (the solver sees the range the query API reports)"); }
			else ASSERT(untouched(r), "C06/C07: every other row (and every row after a rejected call) is untouched");
		}
	}
#else
#error "select FN_chgsense or FN_chgrange"
#endif
	REACH_END();
}
QSV_MAIN(harness)
