/* C12 (exact reduced costs) / C01, C05 (objective value): the vector formulas of fct.c (REAL) against their
 * definitions, in EXACT integer arithmetic (GMP model variant EXACT+NARROW: pair arithmetic, every result asserted to fit):
 *   FN_dz   mpq_ILLfct_compute_dz :  for EVERY non-basic position j (column col = nbaz[j], of ANY type and status)
 *                 dz[j] = cz[col] - SUM_{entries (r, v) of column col} piz[r] * v
 *   FN_pobj mpq_ILLfct_compute_pobj: pobjval = objval = SUM_i cz[baz[i]] * xbz[i] + SUM_{j at upper} cz*uz + SUM_{j at lower} cz*lz
 *   FN_dobj mpq_ILLfct_compute_dobj: dobjval = objval = SUM_i piz[i] * bz[i] + SUM_{j at upper} dz[j]*uz + SUM_{j at lower} dz[j]*lz
 * BOUND: NR rows, NN non-basic positions, NR + NN columns, each column <= 2 entries, integers of magnitude <= VMAX. */
#include <string.h>
#include "qsv.h"
#include "qs_config.h"
#include "lpdefs_mpq.h"
#include "fct_mpq.h"
#ifndef NR
#define NR 2
#endif
#ifndef NN
#define NN 2
#endif
#ifndef VMAX
#define VMAX 3
#endif
#define NC (NR + NN)
#define NZ (2 * NC)
static int pick(int lo_, int hi_)
{
	int v = (int) (nondet_uint() & ((hi_ - lo_) < 8 ? 7u : 15u)) + lo_;
	ASSUME(v <= hi_);
	return v;
}
static int V(mpq_t q) { ASSERT(DENV(q) == 1, "model: value stays integral in this bounded group"); return NUMV(q); }
static int cz[NC], uz[NC], lz[NC], piz[NR], bz[NR], xbz[NR], dzv[NN], mval[NZ];
static int matcnt[NC], matbeg[NC], matind[NZ], baz[NR], nbaz[NN], vstat[NC], vtype[NC];
static mpq_t q_cz[NC], q_uz[NC], q_lz[NC], q_piz[NR], q_bz[NR], q_xbz[NR], q_dz[NN], q_mv[NZ];
void harness(void)
{
	mpq_lpinfo *lp = qsv_alloc(sizeof *lp);
	int i, j, k, pos = 0;
	qsv_init_globals();
	lp->nrows = NR; lp->nnbasic = NN; lp->ncols = NC;
	lp->cz = q_cz; lp->uz = q_uz; lp->lz = q_lz; lp->piz = q_piz; lp->bz = q_bz; lp->xbz = q_xbz; lp->dz = q_dz; lp->matval = q_mv;
	lp->matcnt = matcnt; lp->matbeg = matbeg; lp->matind = matind; lp->baz = baz; lp->nbaz = nbaz; lp->vstat = vstat; lp->vtype = vtype;
	/* basis header: an arbitrary split of the columns into NR basic and NN non-basic positions */
	for (j = 0; j < NC; j++) {
		cz[j] = pick(-VMAX, VMAX); uz[j] = pick(-VMAX, VMAX); lz[j] = pick(-VMAX, VMAX);
		qsv_setnum(lp->cz[j], cz[j]); qsv_setnum(lp->uz[j], uz[j]); qsv_setnum(lp->lz[j], lz[j]);
		vstat[j] = pick(STAT_BASIC, STAT_ZERO); vtype[j] = 1 << pick(0, 5);	/* VARTIFICIAL .. VBOUNDED */
		matcnt[j] = pick(0, 2); matbeg[j] = 2 * j;	/* fixed layout: two slots per column, the first matcnt[j] in use */
		for (k = 0; k < 2; k++) { pos = 2 * j + k; matind[pos] = pick(0, NR - 1); mval[pos] = pick(-VMAX, VMAX); qsv_setnum(lp->matval[pos], mval[pos]); }
	}
	for (i = 0; i < NR; i++) {
		baz[i] = pick(0, NC - 1);
		piz[i] = pick(-VMAX, VMAX); bz[i] = pick(-VMAX, VMAX); xbz[i] = pick(-VMAX, VMAX);
		qsv_setnum(lp->piz[i], piz[i]); qsv_setnum(lp->bz[i], bz[i]); qsv_setnum(lp->xbz[i], xbz[i]);
	}
	for (j = 0; j < NN; j++) { nbaz[j] = pick(0, NC - 1); dzv[j] = pick(-VMAX, VMAX); qsv_setnum(lp->dz[j], dzv[j]); }
	mpq_init(lp->pobjval); mpq_init(lp->dobjval); mpq_init(lp->objval);
#if defined(FN_dz)
	mpq_ILLfct_compute_dz(lp);
	for (j = 0; j < NN; j++) {
		int col = nbaz[j], want = cz[col];
		for (k = 0; k < 2; k++) if (k < matcnt[col]) want -= piz[matind[matbeg[col] + k]] * mval[matbeg[col] + k];
		if (j == 0) COVER_MUST(vtype[col] == VFIXED && want != 0, "fixed_column_nonzero_dz");
		ASSERT(V(lp->dz[j]) == want, "C12: the reduced cost of every non-basic column is c_j minus the row multipliers times the column (whatever its type or status)");
	}
#elif defined(FN_pobj)
	{
		int want = 0;
		mpq_ILLfct_compute_pobj(lp);
		for (i = 0; i < NR; i++) want += cz[baz[i]] * xbz[i];
		for (j = 0; j < NN; j++) { int col = nbaz[j]; if (vstat[col] == STAT_UPPER) want += cz[col] * uz[col]; else if (vstat[col] == STAT_LOWER) want += cz[col] * lz[col]; }
		ASSERT(V(lp->pobjval) == want && V(lp->objval) == want, "C01/C05: the primal objective value is c_B x_B plus the non-basic columns at their bounds");
		COVER_MUST(want != 0, "nonzero_value");
	}
#elif defined(FN_dobj)
	{
		int want = 0;
		mpq_ILLfct_compute_dobj(lp);
		for (i = 0; i < NR; i++) want += piz[i] * bz[i];
		for (j = 0; j < NN; j++) { int col = nbaz[j]; if (vstat[col] == STAT_UPPER) want += dzv[j] * uz[col]; else if (vstat[col] == STAT_LOWER) want += dzv[j] * lz[col]; }
		ASSERT(V(lp->dobjval) == want && V(lp->objval) == want, "C01/C05: the dual objective value is pi b plus the reduced costs times the bounds the non-basic columns sit at");
		COVER_MUST(want != 0, "nonzero_value");
	}
#else
#error "select FN_dz, FN_pobj or FN_dobj"
#endif
	REACH_END();
}
QSV_MAIN(harness)
