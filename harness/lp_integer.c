/* C10 / C11: the REAL read_integer and read_colname (static, lp.c) on every token stream of at most NTOK tokens (known
 * column name, unknown name, something that is no name) ended by a section keyword: exactly the columns named before the
 * keyword are marked integer; an unknown name or a non-name is an error.  The scanner is a token cursor. */
#include <string.h>
#include <stdarg.h>
#include "qsv.h"
#include "qs_config.h"
#include "rawlp_mpq.h"
#include "read_lp_mpq.h"
#ifndef NTOK
#define NTOK 3
#endif
enum { T_NAME = 0, T_JUNK, T_END };
static int tt[NTOK + 1], tv[NTOK + 1], cur, lastname, errors;
int __CPROVER_file_local_lp_mpq_c_read_integer(mpq_ILLread_lp_state *state, mpq_rawlpdata *lp);
int mpq_ILLread_lp_state_next_var(mpq_ILLread_lp_state *st) { if (tt[cur] == T_NAME) { lastname = tv[cur]; st->field[0] = 'x'; st->field[1] = 0; cur++; return 0; } return tt[cur] == T_END ? -1 : 1; }
void mpq_ILLread_lp_state_prev_field(mpq_ILLread_lp_state *st) { cur--; }
int mpq_ILLread_lp_state_next_field(mpq_ILLread_lp_state *st) { return 0; }
int ILLsymboltab_lookup(ILLsymboltab *h, const char *s, int *p_index) { if (lastname >= 0) { *p_index = lastname; return 0; } return 1; }
int mpq_ILLlp_error(mpq_ILLread_lp_state *st, const char *format, ...) { errors++; return 1; }
void harness(void)
{
	static mpq_rawlpdata raw; mpq_rawlpdata *lp = &raw; static char intm[2];
	mpq_ILLread_lp_state *st = qsv_alloc(sizeof *st);
	int n = nondet_int(), i, rv, ok = 1, want[2] = { 0, 0 };
	qsv_init_globals();
	ASSUME(0 <= n && n <= NTOK);
	for (i = 0; i < NTOK; i++) { if (i < n) { tt[i] = nondet_bool() ? T_NAME : T_JUNK; tv[i] = (int) (nondet_uint() % 3u) - 1; } else { tt[i] = T_END; tv[i] = 0; } }
	tt[NTOK] = T_END;
	for (i = 0; i < NTOK; i++) { if (tt[i] == T_END) break; if (tt[i] != T_NAME || tv[i] < 0) { ok = 0; break; } want[tv[i]] = 1; }
	lp->intmarker = intm; lp->ncols = 2; st->column_index = -1; st->field[0] = 0;
	rv = __CPROVER_file_local_lp_mpq_c_read_integer(st, lp);
	ASSERT((rv == 0) == ok, "C10/C11: the integer section is accepted iff it lists known column names up to the next section keyword");
	if (rv == 0) ASSERT(intm[0] == want[0] && intm[1] == want[1], "C10: exactly the listed columns are marked integer");
	COVER_MUST(rv == 0 && want[0] && want[1], "both_columns");
	REACH_END();
}
QSV_MAIN(harness)
