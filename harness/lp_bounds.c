/* C10 "default/implicit bounds follow the documented rules" (LP format) / C11: the REAL read_bounds and read_colname
 * (static, lp.c) with the REAL bound setters ILLraw_set_* / ILLraw_init_bounds / ILLraw_fill_in_bounds (rawlp.c) on
 * EVERY token stream of at most NTOK tokens (value, sense <= / = / >=, column name known or unknown, the word FREE),
 * followed by a section keyword.  The character scanner is replaced by a token cursor.  An independent reference parser
 * of the bounds grammar
 *        statement ::= [ value "<=" ] name [ ( "<=" | "=" ) value | "FREE" ]        (a bare name is not a statement)
 * decides acceptance and computes the expected bounds with the rules: the FIRST definition of a side is kept (a later
 * statement that would redefine a side already given is ignored as a whole for "=" and FREE); no lower bound: 0, but
 * -infinity when only a negative upper bound was given; no upper bound: +infinity.
 *   - read_bounds accepts exactly the streams the reference grammar accepts
 *   - on acceptance the bounds of every column are the expected ones
 * BOUND: NTOK = 5 tokens, 2 columns, values in -2..2. */
#include <string.h>
#include <stdarg.h>
#include "qsv.h"
#include "qs_config.h"
#include "rawlp_mpq.h"
#include "read_lp_mpq.h"
#ifndef NTOK
#define NTOK 5
#endif
#define NCOL 2
enum { T_VAL = 0, T_SENSE, T_NAME, T_FREE, T_END };
static int tt[NTOK + 1], tv[NTOK + 1];	/* token type, payload: value / sense char / column (-1 unknown) */
static int cur, lastname, errors;
int __CPROVER_file_local_lp_mpq_c_read_bounds(mpq_ILLread_lp_state *state, mpq_rawlpdata *lp);
static int pick(int lo_, int hi_) { int v = (int) (nondet_uint() & 7u) + lo_; ASSUME(v <= hi_); return v; }
int mpq_ILLread_lp_state_possible_bound_value(mpq_ILLread_lp_state *st) { if (tt[cur] == T_VAL) { qsv_setnum(st->bound_val, tv[cur]); cur++; return 1; } return 0; }
void mpq_ILLtest_lp_state_bound_sense(mpq_ILLread_lp_state *st) { if (tt[cur] == T_SENSE) { st->sense_val = (char) tv[cur]; cur++; } else st->sense_val = ' '; }
int mpq_ILLread_lp_state_next_var(mpq_ILLread_lp_state *st) { if (tt[cur] == T_NAME) { lastname = tv[cur]; st->field[0] = 'x'; st->field[1] = 0; cur++; return 0; } return tt[cur] == T_END ? -1 : 1; }
void mpq_ILLread_lp_state_prev_field(mpq_ILLread_lp_state *st) { cur--; }
int mpq_ILLread_lp_state_next_field(mpq_ILLread_lp_state *st) { return 0; }
int mpq_ILLtest_lp_state_next_is(mpq_ILLread_lp_state *st, const char *str) { if (tt[cur] == T_FREE) { cur++; return 1; } return 0; }
int ILLsymboltab_lookup(ILLsymboltab *h, const char *s, int *p_index) { if (lastname >= 0) { *p_index = lastname; return 0; } return 1; }
int mpq_ILLlp_error(mpq_ILLread_lp_state *st, const char *format, ...) { errors++; return 1; }
void mpq_ILLlp_warn(mpq_ILLread_lp_state *st, const char *format, ...) { }
void harness(void)
{
	static mpq_rawlpdata raw; mpq_rawlpdata *lp = &raw;
	mpq_ILLread_lp_state *st = qsv_alloc(sizeof *st);
	int lset[NCOL], uset[NCOL], lo[NCOL], up[NCOL], i, k, rv, ok = 1, n;
	qsv_init_globals();
	n = pick(0, NTOK);
	for (i = 0; i < NTOK; i++) {
		if (i < n) { tt[i] = pick(T_VAL, T_FREE); tv[i] = tt[i] == T_VAL ? pick(-2, 2) : tt[i] == T_SENSE ? "LEG"[pick(0, 2)] : tt[i] == T_NAME ? pick(-1, NCOL - 1) : 0; }
		else { tt[i] = T_END; tv[i] = 0; }
	}
	tt[NTOK] = T_END; tv[NTOK] = 0;
	for (i = 0; i < NCOL; i++) { lset[i] = 0; uset[i] = 0; lo[i] = 0; up[i] = 0; }
	/* ---- reference parser ---- */
	k = 0;
	for (i = 0; i < NTOK + 1; i++) {
		int c, have = 0, lv = 0, haslv = 0;
		if (!ok || tt[k] == T_END) break;
		if (tt[k] == T_VAL) { lv = tv[k]; haslv = 1; k++; if (!(tt[k] == T_SENSE && tv[k] == 'L')) { ok = 0; break; } k++; if (tt[k] != T_NAME || tv[k] < 0) { ok = 0; break; } }
		else if (tt[k] != T_NAME || tv[k] < 0) { ok = 0; break; }
		c = tv[k]; k++;
		if (haslv) { if (!lset[c]) { lset[c] = 1; lo[c] = lv; } have = 1; }
		if (tt[k] == T_SENSE) {
			int s = tv[k]; k++;
			if (s != 'L' && s != 'E') { ok = 0; break; }
			if (tt[k] != T_VAL) { ok = 0; break; }
			if (s == 'E') { if (!lset[c] && !uset[c]) { lset[c] = uset[c] = 1; lo[c] = up[c] = tv[k]; } }
			else if (!uset[c]) { uset[c] = 1; up[c] = tv[k]; }
			k++;
		} else if (tt[k] == T_FREE) { if (!lset[c] && !uset[c]) { lset[c] = uset[c] = 1; lo[c] = -QSV_INF; up[c] = QSV_INF; } k++; }
		else if (!have) { ok = 0; break; }
	}
	/* ---- the real reader ---- */
	lp->ncols = NCOL; lp->upper = 0; lp->lower = 0; lp->lbind = 0; lp->ubind = 0; lp->intmarker = 0; lp->error_collector = 0;
	mpq_init(st->bound_val); st->sense_val = ' '; st->column_index = -1; st->field[0] = 0;
	rv = __CPROVER_file_local_lp_mpq_c_read_bounds(st, lp);
	ASSERT((rv == 0) == ok, "C10/C11: the bounds section is accepted iff every statement is  [value <=] name [(<= | =) value | FREE]  over known columns");
	if (rv == 0) {
		rv = mpq_ILLraw_fill_in_bounds(lp);
		ASSERT(rv == 0, "C10: the bounds section is completed without error");
		for (i = 0; i < NCOL; i++) {
			int wl = lset[i] ? lo[i] : (uset[i] && up[i] < 0 ? -QSV_INF : 0), wu = uset[i] ? up[i] : QSV_INF;
			ASSERT(DENV(lp->lower[i]) == 1 && NUMV(lp->lower[i]) == wl && DENV(lp->upper[i]) == 1 && NUMV(lp->upper[i]) == wu,
				"C10: each column gets the first lower / upper bound given for it, else 0 / +infinity, and -infinity below a lone negative upper bound");
		}
		COVER_MUST(lset[0] && uset[0] && lo[0] != up[0], "double_bounded_column");
	}
	COVER_MUST(!ok && errors > 0, "rejected");
	REACH_END();
}
QSV_MAIN(harness)
