/* C18 "calls that failed part-way (parse errors) release everything" / C11: the data-line handlers of the MPS reader
 * (static, mps.c, REAL): mps_read_col_line, add_rhs, add_ranges, add_bounds.  Every callee outside mps.c (line scanner,
 * symbol table, raw-problem adders) is a stub with an ARBITRARY result, so every error position of the handler is
 * explored.  Obligation: whatever happens -- record accepted, or rejected at any field -- the handler leaves no
 * temporary number behind (GMP model TOKENS: every initialised number owns a heap token; the count of live numbers is
 * the same after the call as before), plus every pointer / bounds obligation of the handler.
 * BOUND: at most 3 further fields per line (the field loops are completely unwound), 2 rows, 2 columns. */
#include <string.h>
#include <stdarg.h>
#include "qsv.h"
#include "qs_config.h"
#include "rawlp_mpq.h"
#include "read_mps_mpq.h"
#include "mps_mpq.h"
extern int qsv_gmp_live;
int __CPROVER_file_local_mps_mpq_c_mps_read_col_line(mpq_ILLread_mps_state *state, mpq_rawlpdata *lp);
int __CPROVER_file_local_mps_mpq_c_add_rhs(mpq_ILLread_mps_state *state, mpq_rawlpdata *lp);
int __CPROVER_file_local_mps_mpq_c_add_ranges(mpq_ILLread_mps_state *state, mpq_rawlpdata *lp);
int __CPROVER_file_local_mps_mpq_c_add_bounds(mpq_ILLread_mps_state *state, mpq_rawlpdata *lp);
static int fields_left, errors;
static const char *bt[10] = { "LO", "UP", "FX", "FR", "MI", "PL", "BV", "UI", "LI", "ZZ" };
int mpq_ILLmps_empty_key(mpq_ILLread_mps_state *st) { return st->key[0] == 0; }
int mpq_ILLmps_empty_field(mpq_ILLread_mps_state *st) { return st->field[0] == 0; }
int mpq_ILLmps_error(mpq_ILLread_mps_state *st, const char *format, ...) { errors++; return 1; }
void mpq_ILLmps_warn(mpq_ILLread_mps_state *st, const char *format, ...) { }
void mpq_ILLmps_set_end_of_line(mpq_ILLread_mps_state *st) { fields_left = 0; }
int mpq_ILLmps_next_field(mpq_ILLread_mps_state *st) { if (fields_left <= 0 || nondet_bool()) return 1; fields_left--; st->field[0] = 'f'; st->field[1] = 0; return 0; }
int mpq_ILLmps_next_coef(mpq_ILLread_mps_state *st, mpq_t *coef) { if (nondet_bool()) return 1; mpq_set_si(*coef, 5, 1UL); return 0; }
int mpq_ILLmps_next_bound(mpq_ILLread_mps_state *st, mpq_t *coef) { if (nondet_bool()) return 1; mpq_set_si(*coef, 5, 1UL); return 0; }
const char *mpq_ILLmps_possibly_blank_name(const char *field, mpq_ILLread_mps_state *st, ILLsymboltab *tab) { return nondet_bool() ? " " : field; }
int ILLsymboltab_lookup(ILLsymboltab *h, const char *s, int *p_index) { if (nondet_bool()) return 1; *p_index = nondet_bool() ? 1 : 0; return 0; }
int ILLutil_index(const char *list[], const char *name) { int i; for (i = 0; list[i] != 0; i++) if (list[i][0] == name[0] && list[i][1] == name[1]) return i; return -1; }
static int set_name(int *skip) { *skip = nondet_bool(); return nondet_bool(); }
int mpq_ILLraw_set_rhs_name(mpq_rawlpdata *lp, const char *name, int *skip) { return set_name(skip); }
int mpq_ILLraw_set_bounds_name(mpq_rawlpdata *lp, const char *name, int *skip) { return set_name(skip); }
int mpq_ILLraw_set_ranges_name(mpq_rawlpdata *lp, const char *name, int *skip) { return set_name(skip); }
const char *mpq_ILLraw_rowname(mpq_rawlpdata *lp, int i) { return "r"; }
const char *mpq_ILLraw_colname(mpq_rawlpdata *lp, int i) { return "c"; }
static int g_addrow_calls, g_addrow_sense, g_addrow_rhs0;
int mpq_ILLraw_add_row(mpq_rawlpdata *lp, const char *name, int sense, const mpq_t rhs) { g_addrow_calls++; g_addrow_sense = sense; g_addrow_rhs0 = NUMV(rhs) == 0; return nondet_bool(); }
int __CPROVER_file_local_mps_mpq_c_add_row(mpq_ILLread_mps_state *state, mpq_rawlpdata *lp);
int mpq_ILLraw_add_col(mpq_rawlpdata *lp, const char *name, int intmarker) { if (nondet_bool()) return 1; lp->ncols = 2; return 0; }
int mpq_ILLraw_add_col_coef(mpq_rawlpdata *lp, int colind, int rowind, mpq_t coef) { return nondet_bool(); }
int mpq_ILLraw_add_ranges_coef(mpq_rawlpdata *lp, int rowind, mpq_t coef) { return nondet_bool(); }
int mpq_ILLraw_is_mem_other_sos(mpq_rawlpdata *lp, int colind) { return nondet_bool(); }
int mpq_ILLraw_add_sos_member(mpq_rawlpdata *lp, int colind) { return nondet_bool(); }
static const char *msg(void) { return nondet_bool() ? "warning" : 0; }
const char *mpq_ILLraw_set_lowerBound(mpq_rawlpdata *lp, int i, mpq_t bnd) { return msg(); }
const char *mpq_ILLraw_set_upperBound(mpq_rawlpdata *lp, int i, mpq_t bnd) { return msg(); }
const char *mpq_ILLraw_set_fixedBound(mpq_rawlpdata *lp, int i, mpq_t bnd) { return msg(); }
const char *mpq_ILLraw_set_unbound(mpq_rawlpdata *lp, int i) { return msg(); }
const char *mpq_ILLraw_set_binaryBound(mpq_rawlpdata *lp, int i) { return msg(); }
void harness(void)
{
	static mpq_rawlpdata raw; mpq_rawlpdata *lp = &raw;
	mpq_ILLread_mps_state *st = qsv_alloc(sizeof *st);
	static char rhsind[2], rangesind[2], rowsense[2], intm[2], ubind[2]; static int sosm[2]; static mpq_t rhs[2];
	int live0, rv, i, k;
	qsv_init_globals();
	for (i = 0; i < 2; i++) { rhsind[i] = (char) nondet_bool(); rangesind[i] = (char) nondet_bool(); rowsense[i] = nondet_bool() ? 'N' : 'L'; intm[i] = 0; ubind[i] = (char) nondet_bool(); sosm[i] = -1; mpq_init(rhs[i]); }
	lp->ncols = 2; lp->nrows = 2; lp->rhsind = rhsind; lp->rangesind = rangesind; lp->rowsense = rowsense; lp->intmarker = intm; lp->ubind = ubind; lp->is_sos_member = sosm; lp->rhs = rhs;
	st->key[0] = 0; st->field[0] = 'f'; st->field[1] = 0; st->intvar = nondet_bool(); st->sosvar = nondet_bool(); st->line_num = 1;
	fields_left = 3;
	live0 = qsv_gmp_live;
#if defined(FN_col)
	rv = __CPROVER_file_local_mps_mpq_c_mps_read_col_line(st, lp);
#elif defined(FN_row)
	{	/* ROWS record: a one-letter sense out of N L G E, then a new row name; the row is created with that sense and right-hand side 0 */
		char c0 = nondet_char(), c1 = nondet_char(); int ok_sense;
		ASSUME(c0 != 0); st->field[0] = c0; st->field[1] = c1; st->field[2] = 0;
		ok_sense = c1 == 0 && (c0 == 'L' || c0 == 'G' || c0 == 'E' || c0 == 'N');
		rv = __CPROVER_file_local_mps_mpq_c_add_row(st, lp);
		ASSERT(ok_sense || (rv != 0 && g_addrow_calls == 0), "C11: an unknown row sense is an error and creates no row");
		if (g_addrow_calls) ASSERT(g_addrow_calls == 1 && ok_sense && g_addrow_sense == c0 && g_addrow_rhs0, "C10: the row is created once, with the sense letter of the record and right-hand side 0");
		if (rv == 0) ASSERT(g_addrow_calls == 1, "C10: an accepted ROWS record created its row");
	}
#elif defined(FN_rhs)
	rv = __CPROVER_file_local_mps_mpq_c_add_rhs(st, lp);
#elif defined(FN_ranges)
	rv = __CPROVER_file_local_mps_mpq_c_add_ranges(st, lp);
#elif defined(FN_bounds)
	k = nondet_int(); ASSUME(0 <= k && k <= 9); st->field[0] = bt[k][0]; st->field[1] = bt[k][1]; st->field[2] = 0;
	rv = __CPROVER_file_local_mps_mpq_c_add_bounds(st, lp);
#else
#error "select FN_col, FN_row, FN_rhs, FN_ranges or FN_bounds"
#endif
	ASSERT(qsv_gmp_live == live0, "C18: the line handler leaves no temporary number behind, whether the record is accepted or rejected at any field");
	COVER_MUST(rv != 0 && errors > 0, "rejected_record");
	COVER_MUST(rv == 0, "accepted_record");
	REACH_END();
}
QSV_MAIN(harness)
