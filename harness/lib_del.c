/* C06 / C05 / C07 / C17: row and column deletion (lib.c, REAL: mpq_ILLlib_delrows, mpq_ILLlib_delcols, delcols_work)
 * as bounded contract checks against a dense reference model.
 * State: NS structural columns, NR rows (one logical column per row), arbitrary bijection of external indices onto
 * internal columns, arbitrary well-formed sparse layout (counts, row sets, optional holes, free tail), arbitrary
 * data payloads, optional integer marks / range values, optional basis (status codes, optional row/column norms)
 * and optional cached solution.  Symbol table, ILLbasis_load and the row-copy cache are stubs.
 * Postcondition on success = the whole abstract view of the REMAINING problem (every kept row / column: data,
 * names, coefficients, logical column, nonzero count) + representation invariant + the conditional contract
 * C05 needs: cache_ok only if every deleted row was basic with pi <= 0 and the cached pi/slack are the survivors
 * in order; basis_ok only if every deleted row (column) was basic (non-basic).
 * On an invalid index: non-zero, nothing changed.  BOUND: NS = 2, NR = 2, at most 2 indices deleted (possibly the same one twice).
 * Variant LAYOUT_FIXED + NR=3 + NUM=n (del/delrows_b3_n1, _n2): three rows, the matrix concrete (empty structural columns,
 * structurals first), list length a compile-time constant -- the basis / pricing-norm / cache repacking with a surviving
 * row BEHIND a deleted one and with non-ascending lists, which two rows cannot show. */
#include "lib_contracts.h"
struct qsv_ghost qsv_g;
int g_sinfo_freed, g_load_calls;
void mpq_ILLlp_sinfo_free(mpq_ILLlp_sinfo *s) { g_sinfo_freed = 1; }
void mpq_ILLlp_rows_clear(mpq_ILLlp_rows *r) { }
int ILLsymboltab_delete(ILLsymboltab *h, const char *s) { return 0; }
int mpq_ILLbasis_load(mpq_lpinfo *lp, mpq_ILLlp_basis *B) { g_load_calls++; return 0; }
#define NS 2
#ifndef NR
#define NR 2
#endif
#define NC (NS + NR)
#define MAXSZ (NC * 3 + 3)
static int pick(int lo_, int hi_) { int v = (int) (nondet_uint() & 7u) + lo_; ASSUME(v <= hi_); return v; }
static mpq_ILLlpdata *O;
static int D[NR][NS], S[NR][NS];		/* coefficient of (row, EXTERNAL structural column) and whether it is stored */
static int objv[NS], lov[NS], upv[NS], imark[NS], rhsv[NR], rngv[NR], lcoef[NR], lupv[NR];
static char sensev[NR]; static char *cname[NS], *rname[NR];
static int smap[NS], rmap[NR], has_range, has_int;

static void build(void)
{
	mpq_ILLmatrix *A;
	int j, k, r, i, pos = 0, colof[NC], isrow[NC], ext[NC];
	O = qsv_alloc(sizeof *O); A = &O->A;
	O->nrows = NR; O->nstruct = NS; O->ncols = NC; O->rowsize = NR; O->colsize = NC; O->structsize = NS; O->rA = 0; O->sinfo = 0; O->nzcount = 0;
#ifdef LAYOUT_FIXED
	for (i = 0; i < NC; i++) colof[i] = i;	/* structurals first; the matrix is concrete (empty structural columns): the group is about the basis / norm / cache repacking */
#elif defined(LAYOUT_SMALL)
	{ int lf = nondet_bool(); for (i = 0; i < NC; i++) colof[i] = lf ? (i < NS ? NR + i : i - NS) : i; }	/* structurals first or logicals first */
#else
	for (i = 0; i < NC; i++) { colof[i] = pick(0, NC - 1); for (k = 0; k < i; k++) ASSUME(colof[k] != colof[i]); }
#endif
	O->structmap = qsv_alloc(sizeof(int) * NS); O->rowmap = qsv_alloc(sizeof(int) * NR);
	for (j = 0; j < NS; j++) { smap[j] = colof[j]; O->structmap[j] = smap[j]; isrow[smap[j]] = 0; ext[smap[j]] = j; }
	for (r = 0; r < NR; r++) { rmap[r] = colof[NS + r]; O->rowmap[r] = rmap[r]; isrow[rmap[r]] = 1; ext[rmap[r]] = r; }
	A->matrows = NR; A->matcols = NC; A->matcolsize = NC;
	A->matbeg = qsv_alloc(sizeof(int) * NC); A->matcnt = qsv_alloc(sizeof(int) * NC); A->matind = qsv_alloc(sizeof(int) * MAXSZ); A->matval = qsv_numarray(MAXSZ);
	O->obj = qsv_numarray(NC); O->lower = qsv_numarray(NC); O->upper = qsv_numarray(NC);
	O->rhs = qsv_numarray(NR); O->sense = qsv_alloc(NR); O->rownames = qsv_alloc(sizeof(char *) * NR); O->colnames = qsv_alloc(sizeof(char *) * NS);
	has_range = nondet_bool(); has_int = nondet_bool();
	O->rangeval = has_range ? qsv_numarray(NR) : 0; O->intmarker = has_int ? qsv_alloc(NS) : 0;
	for (i = 0; i < MAXSZ; i++) { A->matind[i] = -1; qsv_setnum(A->matval[i], 0); }
	for (r = 0; r < NR; r++) for (j = 0; j < NS; j++) { D[r][j] = 0; S[r][j] = 0; }
	for (i = 0; i < NC; i++) {		/* columns laid out in internal index order */
		A->matbeg[i] = pos;
		if (isrow[i]) {
			r = ext[i]; lcoef[r] = pick(0, 1) ? 1 : -1; lupv[r] = qsv_nondet_payload();
			A->matcnt[i] = 1; A->matind[pos] = r; qsv_setnum(A->matval[pos], lcoef[r]); pos++; O->nzcount++;
			qsv_setnum(O->obj[i], 0); qsv_setnum(O->lower[i], 0); qsv_setnum(O->upper[i], lupv[r]);
		} else {
#ifdef LAYOUT_FIXED
			int cnt = 0; j = ext[i];
#else
			int cnt = pick(0, NR); j = ext[i];
#endif
			A->matcnt[i] = cnt;
			if (cnt == 0) A->matind[pos++] = 1;
			for (k = 0; k < NR; k++) if (k < cnt) { int row = pick(0, NR - 1), v = qsv_nondet_payload(); ASSUME(!S[row][j] && v != 0); A->matind[pos] = row; qsv_setnum(A->matval[pos], v); pos++; D[row][j] = v; S[row][j] = 1; O->nzcount++; }
			objv[j] = qsv_nondet_payload(); lov[j] = qsv_nondet_payload(); upv[j] = qsv_nondet_payload();
			qsv_setnum(O->obj[i], objv[j]); qsv_setnum(O->lower[i], lov[j]); qsv_setnum(O->upper[i], upv[j]);
		}
#if !defined(LAYOUT_SMALL) && !defined(LAYOUT_FIXED)
		pos += pick(0, 1);
#endif
	}
#ifdef LAYOUT_FIXED
	{ const int fr = 1; A->matsize = pos + fr; A->matfree = fr; }
#else
	{ int fr = pick(0, 2); A->matsize = pos + fr; A->matfree = fr; }
#endif
	for (j = 0; j < NS; j++) { cname[j] = malloc(2); __CPROVER_assume(cname[j] != 0); O->colnames[j] = cname[j]; if (has_int) { imark[j] = nondet_bool(); O->intmarker[j] = (char) imark[j]; } }
	for (r = 0; r < NR; r++) { rname[r] = malloc(2); __CPROVER_assume(rname[r] != 0); O->rownames[r] = rname[r]; rhsv[r] = qsv_nondet_payload(); qsv_setnum(O->rhs[r], rhsv[r]);
		sensev[r] = "LGER"[pick(0, 3)]; O->sense[r] = sensev[r]; if (has_range) { rngv[r] = qsv_nondet_payload(); qsv_setnum(O->rangeval[r], rngv[r]); } }
}

/* coefficient stored for (row r, internal column c), or 0; *found reports storage; asserts row uniqueness */
static int lookup(int r, int c, int *found)
{
	mpq_ILLmatrix *A = &O->A; int k, v = 0; *found = 0;
	for (k = 0; k < NR; k++) if (k < A->matcnt[c] && A->matind[A->matbeg[c] + k] == r) { ASSERT(!*found, "C06 wf: a row occurs at most once in a column"); *found = 1; v = NUMV(A->matval[A->matbeg[c] + k]); }
	return v;
}
static void check_wf(int ncols, int nrows)
{
	mpq_ILLmatrix *A = &O->A; int j, k, i, used = A->matsize - A->matfree, owned[MAXSZ], nz = 0;
	ASSERT(A->matcols == ncols && A->matrows == nrows && O->ncols == ncols && O->nrows == nrows, "C06 wf: matrix and problem dimensions agree");
	ASSERT(0 <= A->matfree && used >= 0 && A->matsize <= MAXSZ, "C06 wf: 0 <= matfree <= matsize");
	for (i = 0; i < MAXSZ; i++) owned[i] = 0;
	for (j = 0; j < NC; j++) if (j < ncols) {
		int beg = A->matbeg[j], cnt = A->matcnt[j], ext_ = cnt > 0 ? cnt : 1;
		ASSERT(0 <= cnt && cnt <= NR && 0 <= beg && beg + ext_ <= used, "C06 wf: every column's extent lies inside the used region");
		for (k = 0; k < NR + 1; k++) if (k < ext_) { ASSERT(!owned[beg + k], "C06 wf: column extents are pairwise disjoint"); owned[beg + k] = 1; }
		for (k = 0; k < NR; k++) if (k < cnt) ASSERT(0 <= A->matind[beg + k] && A->matind[beg + k] < nrows, "C06 wf: row indices in range after the deletion");
		if (cnt == 0) ASSERT(A->matind[beg] != -1, "C06 wf: the slot reserved for an empty column is marked in use (a free slot is -1: a neighbouring column would grow into it)");
		nz += cnt;
	}
	for (i = 0; i < MAXSZ; i++) if (i >= used && i < A->matsize) ASSERT(A->matind[i] == -1, "C06 wf: the free tail is unused (all -1)");
	ASSERT(O->nzcount == nz, "C06 view: the nonzero count equals the number of stored coefficients");
}

void harness(void)
{
	mpq_lpinfo *lp;
	mpq_ILLlp_basis *B = 0; mpq_ILLlp_cache *C = 0;
	int rv, num, del[2], i, j, r, bok = -1, cok = -1, valid = 1, f;
	char cst[NS], rst[NR]; int piv[NR], slv[NR], rnv[NR], has_rn = 0;
	qsv_init_globals();
	build();
	lp = qsv_mk_lpinfo(O);
	if (nondet_bool()) {
		B = qsv_alloc(sizeof *B); B->nstruct = NS; B->nrows = NR; B->cstat = qsv_alloc(NS); B->rstat = qsv_alloc(NR);
		for (j = 0; j < NS; j++) { cst[j] = (char) ('0' + pick(0, 3)); B->cstat[j] = cst[j]; }
		for (r = 0; r < NR; r++) { rst[r] = (char) ('0' + pick(0, 2)); B->rstat[r] = rst[r]; }
		{ int nb = 0; for (j = 0; j < NS; j++) nb += cst[j] == '1'; for (r = 0; r < NR; r++) nb += rst[r] == '1'; ASSUME(nb == NR); }	/* a basis has one basic variable per row */
		B->rownorms = nondet_bool() ? qsv_numarray(NR) : 0; B->colnorms = nondet_bool() ? qsv_numarray(NS) : 0;
		if (B->rownorms) { has_rn = 1; for (r = 0; r < NR; r++) { rnv[r] = qsv_nondet_payload(); qsv_setnum(B->rownorms[r], rnv[r]); } }
		if (nondet_bool()) { C = qsv_alloc(sizeof *C); C->nstruct = NS; C->nrows = NR; C->x = qsv_numarray(NS); C->rc = qsv_numarray(NS); C->pi = qsv_numarray(NR); C->slack = qsv_numarray(NR);
			for (r = 0; r < NR; r++) { piv[r] = qsv_nondet_payload(); slv[r] = qsv_nondet_payload(); qsv_setnum(C->pi[r], piv[r]); qsv_setnum(C->slack[r], slv[r]); } }
	}
#ifdef NUM
	num = NUM;	/* compile-time list length */
#else
	num = pick(0, 2);
#endif
	del[0] = pick(0, NR + 1) - 1; del[1] = pick(0, NR + 1) - 1;
	if (num == 2 && del[0] == del[1]) valid = 0;	/* a row / column listed twice is an invalid argument (the counts would be reduced twice for one deletion) */
#if defined(FN_delrows)
	for (i = 0; i < 2; i++) if (i < num && (del[i] < 0 || del[i] >= NR)) valid = 0;
	rv = mpq_ILLlib_delrows(lp, B, C, num, del, &bok, &cok);
	ASSERT((rv == 0) == valid, "C07: accepted iff every listed row index is in range and no row is listed twice");
	if (rv != 0) { check_wf(NC, NR); for (r = 0; r < NR; r++) ASSERT(NUMV(O->rhs[r]) == rhsv[r] && O->sense[r] == sensev[r] && O->rownames[r] == rname[r], "C07: a rejected deletion leaves the rows untouched"); }
	else {
		int keep[NR], newi[NR], nk = 0, gone[NR];
		for (r = 0; r < NR; r++) { gone[r] = 0; for (i = 0; i < 2; i++) if (i < num && del[i] == r) gone[r] = 1; keep[r] = !gone[r]; newi[r] = nk; nk += keep[r]; }
		check_wf(NC - num, NR - num);
		ASSERT(O->nstruct == NS, "C06: deleting rows keeps every structural column");
		for (r = 0; r < NR; r++) if (keep[r]) {
			int q = newi[r], lc = O->rowmap[q];
			ASSERT(NUMV(O->rhs[q]) == rhsv[r] && O->sense[q] == sensev[r] && O->rownames[q] == rname[r] && (!has_range || NUMV(O->rangeval[q]) == rngv[r]), "C06: every remaining row keeps its rhs, sense, range and name, in order");
			ASSERT(0 <= lc && lc < NC - num && O->A.matcnt[lc] == 1 && O->A.matind[O->A.matbeg[lc]] == q && NUMV(O->A.matval[O->A.matbeg[lc]]) == lcoef[r] && NUMV(O->upper[lc]) == lupv[r], "C06: every remaining row keeps its logical column (coefficient, bounds), re-indexed");
			for (j = 0; j < NS; j++) { int v = lookup(q, O->structmap[j], &f); ASSERT(f == S[r][j] && (!f || v == D[r][j]), "C06: every coefficient of a remaining row is unchanged"); }
		}
		for (j = 0; j < NS; j++) { int c = O->structmap[j]; ASSERT(0 <= c && c < NC - num && NUMV(O->obj[c]) == objv[j] && NUMV(O->lower[c]) == lov[j] && NUMV(O->upper[c]) == upv[j] && O->colnames[j] == cname[j], "C06: every structural column keeps objective, bounds and name"); }
		if (B && num > 0) {
			int allbasic = 1; for (r = 0; r < NR; r++) if (gone[r] && rst[r] != '1') allbasic = 0;
			ASSERT(bok == allbasic, "C05/C12: the basis survives a row deletion iff every deleted row's logical was basic");
			if (bok) { ASSERT(B->nrows == NR - num && g_load_calls == 1, "C12: a surviving basis has the new row count and is reloaded"); for (r = 0; r < NR; r++) if (keep[r]) ASSERT(B->rstat[newi[r]] == rst[r], "C12: row statuses of a surviving basis are the survivors in order");
				if (has_rn) {	/* row norms are stored per BASIS POSITION: basic structurals first, then basic rows in row order */
					int kb = 0, oldpos, newpos; for (j = 0; j < NS; j++) kb += cst[j] == '1';
					oldpos = kb; newpos = kb;
					for (r = 0; r < NR; r++) if (rst[r] == '1') { if (keep[r]) { ASSERT(B->rownorms != 0 && NUMV(B->rownorms[newpos]) == rnv[oldpos], "C17/C05: the retained pricing norm of every surviving basic row is its own old norm"); newpos++; } oldpos++; }
				} }
		}
		if (num > 0 && cok == 1) {
			ASSERT(B != 0 && C != 0 && bok == 1, "C05: the cached solution is kept only together with the basis");
			for (r = 0; r < NR; r++) if (gone[r]) ASSERT(rst[r] == '1' && piv[r] <= 0, "C05: the cached solution is kept only if every deleted row was basic with a non-positive dual (zero for an optimal solution)");
			ASSERT(C->nrows == NR - num, "C05: a kept cache has the new row count");
			for (r = 0; r < NR; r++) if (keep[r]) ASSERT(NUMV(C->pi[newi[r]]) == piv[r] && NUMV(C->slack[newi[r]]) == slv[r], "C05: a kept cache holds the surviving duals and slacks in order");
		}
		if (num == 0) ASSERT(bok == 1 && cok == 1, "C05: deleting nothing keeps basis and cache");
	}
#ifdef NUM
	COVER_MUST(rv == 0 && cok == 1 && has_rn, "cache_kept");
#if NUM == 2
	COVER_MUST(rv == 0 && cok == 1 && del[0] > del[1], "descending_list_cache_kept");
#endif
#else
	COVER_MUST(rv == 0 && num == 1 && cok == 1, "cache_kept");
#endif
#elif defined(FN_delcols)
	for (i = 0; i < 2; i++) if (i < num && (del[i] < 0 || del[i] >= NS)) valid = 0;
	rv = mpq_ILLlib_delcols(lp, B, num, del, &bok);
	ASSERT((rv == 0) == valid, "C07: accepted iff every listed index names a STRUCTURAL column (0 <= index < number of columns the user created) and no column is listed twice");
	if (rv != 0) { check_wf(NC, NR); ASSERT(O->nstruct == NS && O->colnames[0] == cname[0] && O->colnames[1] == cname[1] && O->structmap[0] == smap[0] && O->structmap[1] == smap[1] && (!B || B->nstruct == NS), "C07: a rejected deletion leaves the columns (and the basis) untouched"); }
	else {
		int keep[NS], newj[NS], nk = 0;
		for (j = 0; j < NS; j++) { keep[j] = 1; for (i = 0; i < 2; i++) if (i < num && del[i] == j) keep[j] = 0; newj[j] = nk; nk += keep[j]; }
		check_wf(NC - num, NR);
		ASSERT(O->nstruct == NS - num, "C06: the structural column count drops by the number deleted");
		for (j = 0; j < NS; j++) if (keep[j]) {
			int q = newj[j], c = O->structmap[q];
			ASSERT(0 <= c && c < NC - num && NUMV(O->obj[c]) == objv[j] && NUMV(O->lower[c]) == lov[j] && NUMV(O->upper[c]) == upv[j] && O->colnames[q] == cname[j] && (!has_int || O->intmarker[q] == (char) imark[j]), "C06: every remaining column keeps objective, bounds, name and integer mark, in order");
			for (r = 0; r < NR; r++) { int v = lookup(r, c, &f); ASSERT(f == S[r][j] && (!f || v == D[r][j]), "C06: every coefficient of a remaining column is unchanged"); }
		}
		for (r = 0; r < NR; r++) { int lc = O->rowmap[r]; ASSERT(0 <= lc && lc < NC - num && O->A.matcnt[lc] == 1 && O->A.matind[O->A.matbeg[lc]] == r && NUMV(O->A.matval[O->A.matbeg[lc]]) == lcoef[r] && NUMV(O->rhs[r]) == rhsv[r], "C06: every row keeps its logical column and rhs"); }
		if (B && num > 0) {
			int nonebasic = 1; for (j = 0; j < NS; j++) if (!keep[j] && cst[j] == '1') nonebasic = 0;
			ASSERT(bok == nonebasic, "C05/C12: the basis survives a column deletion iff no deleted column was basic");
			if (bok) { ASSERT(B->nstruct == NS - num, "C12: a surviving basis has the new column count"); for (j = 0; j < NS; j++) if (keep[j]) ASSERT(B->cstat[newj[j]] == cst[j], "C12: column statuses of a surviving basis are the survivors in order"); }
		}
	}
#else
#error "select FN_delrows or FN_delcols"
#endif
	REACH_END();
}
QSV_MAIN(harness)
