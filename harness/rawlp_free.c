/* C18: the reader's intermediate problem (rawlpdata) is released completely -- ILLfree_rawlpdata / ILLraw_clear_matrix
 * (rawlp.c, REAL) with the real pointer-world allocator (allocrus.c, REAL) and symbol tables (symtab.c, REAL, empty):
 * a raw problem with NC columns and NR rows is filled through the real adders (ILLraw_init_rhs / init_ranges /
 * init_bounds, ILLraw_add_col_coef, ILLraw_add_ranges_coef; every optional part present or absent, 0..NCOEF column
 * coefficients and 0..NRNG range entries), then freed.  Obligations: afterwards every block AND every GMP number the
 * raw problem owned is released (GMP model TOKENS: each initialised number owns a heap token; memory-leak check),
 * nothing is released twice, and the structure is back in its initial state.
 * BOUND: NC = NR = 2, NCOEF = 2, NRNG = 2; allocator chunk capacity reduced so that a chunk holds 3 list nodes. */
#include <string.h>
#include "qsv.h"
#include "qs_config.h"
#include "rawlp_mpq.h"
#define NC 2
#define NR 2
#define NCOEF 2
#define NRNG 2
extern int qsv_gmp_live;
static char *dupstr(const char *s) { char *r = malloc(2); __CPROVER_assume(r != 0); r[0] = s[0]; r[1] = 0; return r; }
void harness(void)
{
	static mpq_rawlpdata raw;
	mpq_rawlpdata *lp = &raw;
	mpq_t v;
	int i, k, rv = 0, live0;
	qsv_init_globals();
	live0 = qsv_gmp_live;
	mpq_ILLinit_rawlpdata(lp, 0);
	lp->ncols = NC; lp->nrows = NR; lp->colsize = NC;
	lp->cols = malloc(sizeof(mpq_colptr *) * NC); ASSUME(lp->cols != 0);
	for (i = 0; i < NC; i++) lp->cols[i] = 0;
	if (nondet_bool()) lp->name = dupstr("P");
	if (nondet_bool()) { lp->rowsense = malloc(NR); ASSUME(lp->rowsense != 0); lp->sensesize = NR; }
	if (nondet_bool()) { lp->intmarker = malloc(NC); ASSUME(lp->intmarker != 0); lp->intsize = NC; }
	if (nondet_bool()) { lp->is_sos_member = malloc(sizeof(int) * NC); ASSUME(lp->is_sos_member != 0); lp->is_sos_size = NC; }
	if (nondet_bool()) lp->rhsname = dupstr("R");
	if (nondet_bool()) lp->rangesname = dupstr("G");
	if (nondet_bool()) lp->boundsname = dupstr("B");
	if (nondet_bool()) lp->refrow = dupstr("F");
	if (nondet_bool()) { rv = mpq_ILLraw_init_rhs(lp); ASSUME(rv == 0); lp->rhs = mpq_EGlpNumAllocArray(NR); lp->rhssize = NR; }
	if (nondet_bool()) { rv = mpq_ILLraw_init_bounds(lp); ASSUME(rv == 0); }
	mpq_init(v); { int vv = nondet_int(); mpq_set_si(v, vv, 1); }	/* any value, zero included: an explicit zero coefficient is still an entry (it makes the variable part of the problem) */
	{
		int nco = nondet_int(); ASSUME(0 <= nco && nco <= NCOEF);
		for (k = 0; k < NCOEF; k++) if (k < nco) { int c = nondet_int(), r = nondet_int(); ASSUME(0 <= c && c < NC && 0 <= r && r < NR); rv = mpq_ILLraw_add_col_coef(lp, c, r, v); ASSUME(rv == 0);
			ASSERT(lp->cols[c] != 0 && lp->cols[c]->this_val == r && NUMV(lp->cols[c]->coef) == NUMV(v), "C10: every coefficient read becomes an entry of its column (row, value), a zero value included"); }
		{ int total = 0, c; for (c = 0; c < NC; c++) { mpq_colptr *q = lp->cols[c]; for (k = 0; k < NCOEF + 1; k++) if (q) { total++; q = q->next; } } ASSERT(total == nco, "C10: the column lists hold exactly one entry per coefficient read"); }
	}
	if (nondet_bool()) {
		int nrg = nondet_int(); ASSUME(0 <= nrg && nrg <= NRNG);
		rv = mpq_ILLraw_init_ranges(lp); ASSUME(rv == 0);
		for (k = 0; k < NRNG; k++) if (k < nrg) { int r = nondet_int(); ASSUME(0 <= r && r < NR); rv = mpq_ILLraw_add_ranges_coef(lp, r, v); ASSUME(rv == 0); }
		COVER_MUST(nrg == 2, "two_range_entries");
	}
	mpq_clear(v);
	mpq_ILLfree_rawlpdata(lp);
	ASSERT(qsv_gmp_live == live0, "C18: every number the raw problem owned (column coefficients, range entries, rhs, bounds) is cleared when it is freed");
	ASSERT(lp->cols == 0 && lp->ranges == 0 && lp->rhs == 0 && lp->lower == 0 && lp->upper == 0 && lp->name == 0 && lp->ptrworld.chunklist == 0 && lp->ncols == 0 && lp->nrows == 0,
		"C18: a freed raw problem is back in its initial state");
	REACH_END();
}
QSV_MAIN(harness)
