/* C05 / C18: the REAL QSgrab_cache (qsopt.c; with the REAL ILLlp_cache_init / alloc / free of lpdata.c) -- the step that
 * stores the solution in the problem after a solve -- for a problem of 1 column and 2 rows whose stored solution is
 * absent, of the same shape, or of another shape.  ILLlib_cache_solution (the simplex' answer) is an arbitrary-result stub.
 *   success: the cache has the problem's dimensions (all four vectors of that length) and carries the status given
 *   failure: no cache is left in the problem (a stale solution must not survive a failed refresh)
 *   nothing is leaked in either case (GMP model TOKENS, memory-leak check). */
#include <string.h>
#include "qsv.h"
#include "qs_config.h"
#include "logging-private.h"
#include "eg_macros.h"
#include "eg_lpnum.h"
#include "qsopt_mpq.h"
#include "lpdata_mpq.h"
extern int qsv_gmp_live;
static int cs_rv;
int mpq_ILLlib_cache_solution(mpq_lpinfo *lp, mpq_ILLlp_cache *C) { cs_rv = nondet_bool(); if (!cs_rv && C) { mpq_set_si(C->x[0], 5, 1UL); mpq_set_si(C->pi[1], 6, 1UL); } return cs_rv; }
void harness(void)
{
	mpq_QSdata *p = qsv_alloc(sizeof *p);
	int rv, live0, shape = nondet_int(), status = nondet_int();
	qsv_init_globals();
	ASSUME(0 <= shape && shape <= 2);
	live0 = qsv_gmp_live;
	p->qslp = qsv_alloc(sizeof *p->qslp); p->lp = qsv_alloc(sizeof *p->lp);
	p->qslp->nstruct = 1; p->qslp->nrows = 2; p->cache = 0;
	if (shape) {
		p->cache = qsv_alloc(sizeof *p->cache); mpq_init(p->cache->val); mpq_ILLlp_cache_init(p->cache);
		rv = shape == 1 ? mpq_ILLlp_cache_alloc(p->cache, 1, 2) : mpq_ILLlp_cache_alloc(p->cache, 2, 1); ASSUME(rv == 0);
	}
	rv = mpq_QSgrab_cache(p, status);
	if (rv == 0) {
		ASSERT(p->cache != 0 && p->cache->nstruct == 1 && p->cache->nrows == 2 && p->cache->status == status && NUMV(p->cache->x[0]) == 5 && NUMV(p->cache->pi[1]) == 6,
			"C05: after a successful grab the stored solution has the problem's dimensions, holds what the solver delivered and carries the status given");
		mpq_ILLlp_cache_free(p->cache); mpq_clear(p->cache->val); free(p->cache);
	} else ASSERT(p->cache == 0 && cs_rv != 0, "C05/C18: a failed grab leaves no stored solution in the problem");
	free(p->qslp); free(p->lp); free(p);
	ASSERT(qsv_gmp_live == live0, "C18: old and new solution vectors are released completely");
	COVER_MUST(rv == 0 && shape == 2, "reshaped");
	COVER_MUST(rv != 0 && shape == 1, "failed_with_old_cache");
	REACH_END();
}
QSV_MAIN(harness)
