/* C12: the exact verdict loops of fct.c under the contracts of fct_contracts.h (dfcc, loop contracts).
 * The state is an arbitrary lpinfo: arrays of symbolic length (<= QSV_MAPCAP because every loop iteration reads
 * through the position->column map nbaz / baz, whose universal in-range fact needs a constant-range quantifier). */
#include "fct_contracts.h"
struct qsv_ghost qsv_g;
static int *ints(int n) { return qsv_alloc(sizeof(int) * (size_t) n); }
void harness(void)
{
	mpq_lpinfo *lp = qsv_alloc(sizeof *lp);
	mpq_feas_info fs;
	mpq_t ftol;
	IN_INT(n); IN_INT(ncols); IN_INT(gk);
	qsv_init_globals();
	ASSUME(0 <= n && n <= QSV_MAPCAP && 1 <= ncols && ncols <= QSV_CAP && 0 <= gk && gk < n);
	qsv_g.gk = gk;
	qsv_setnum(ftol, 0); qsv_setnum(fs.totinfeas, 0); fs.pstatus = 0; fs.dstatus = 0;
	lp->vtype = ints(ncols); lp->vstat = ints(ncols);
#if defined(FN_dfeas)
	lp->nnbasic = n; lp->nbaz = ints(n); lp->dfeas = ints(n); lp->dz = qsv_nums(n);
	qsv_setnum(lp->dinfeas, 0);
	__CPROVER_assume(__CPROVER_forall { int k; (0 <= k && k < QSV_MAPCAP) ==> (k < n ==> (0 <= lp->nbaz[k] && lp->nbaz[k] < ncols && lp->dz[k]->_mp_den._mp_size == 1)) });
	{
		int dzg = PAY(lp->dz[gk]), col = lp->nbaz[gk], vt = lp->vtype[col], vs = lp->vstat[col];
		mpq_ILLfct_check_dfeasible(lp, &fs, ftol);
		ASSERT(!(fs.dstatus == DUAL_FEASIBLE) || !(vt != VARTIFICIAL && vt != VFIXED && ((dzg < 0 && (vs == STAT_LOWER || vs == STAT_ZERO)) || (dzg > 0 && (vs == STAT_UPPER || vs == STAT_ZERO)))),
			"C12: 'dual feasible' only if no non-basic column has a reduced cost of the wrong sign for its status (lower/free: dz >= 0, upper/free: dz <= 0)");
		COVER_MUST(fs.dstatus == DUAL_FEASIBLE, "feasible");
		COVER_MUST(fs.dstatus == DUAL_INFEASIBLE, "infeasible");
	}
#elif defined(FN_pfeas)
	lp->nrows = n; lp->baz = ints(n); lp->bfeas = ints(n); lp->xbz = qsv_nums(n); lp->uz = qsv_nums(ncols); lp->lz = qsv_nums(ncols);
	qsv_setnum(lp->pinfeas, 0);
	__CPROVER_assume(__CPROVER_forall { int k; (0 <= k && k < QSV_MAPCAP) ==> (k < n ==> (0 <= lp->baz[k] && lp->baz[k] < ncols && lp->xbz[k]->_mp_den._mp_size == 1)) });
	{
		int x = PAY(lp->xbz[gk]), col = lp->baz[gk], u = PAY(lp->uz[col]), l = PAY(lp->lz[col]);
		ASSUME(lp->uz[col]->_mp_den._mp_size == 1 && lp->lz[col]->_mp_den._mp_size == 1);	/* payload model: every number has denominator 1 */
		mpq_ILLfct_check_pfeasible(lp, &fs, ftol);
		ASSERT(!(fs.pstatus == PRIMAL_FEASIBLE) || (!(x > u && u != QSV_INF) && !(x < l && l != -QSV_INF)),
			"C12: 'primal feasible' only if every basic variable lies within its finite bounds");
		COVER_MUST(fs.pstatus == PRIMAL_FEASIBLE, "feasible");
		COVER_MUST(fs.pstatus == PRIMAL_INFEASIBLE, "infeasible");
	}
#else
#error "select FN_dfeas or FN_pfeas"
#endif
	REACH_END();
}
QSV_MAIN(harness)
