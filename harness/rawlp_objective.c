/* C10 "repeated terms add up" (objective): transferObjective (static, rawlp.c, REAL) in EXACT integer arithmetic.
 * For every raw problem whose column lists hold at most NPC nodes per column (rows: 0 = the objective row, 1..2 constraint
 * rows; any order, repeats allowed) and every assignment of the raw columns to distinct columns of the final problem:
 *   obj[colindex[c]] is the SUM of all coefficients read for (column c, objective row); every other objective entry is 0.
 * BOUND: NCR = 2 raw columns, 3 final columns, NPC = 3 nodes per column, values in -3..3. */
#include <string.h>
#include "qsv.h"
#include "qs_config.h"
#include "rawlp_mpq.h"
#include "lpdata_mpq.h"
#define NCR 2
#define NCF 3
#define NPC 3
int __CPROVER_file_local_rawlp_mpq_c_transferObjective(mpq_rawlpdata *raw, mpq_ILLlpdata *lp, int *colindex);
static int warns;
void mpq_ILLdata_warn(mpq_qserror_collector *collector, const char *format, ...) { warns++; }
static int pick(int lo_, int hi_) { int v = (int) (nondet_uint() & 7u) + lo_; ASSUME(v <= hi_); return v; }
static int V(mpq_t q) { ASSERT(DENV(q) == 1, "model: value stays integral in this bounded group"); return NUMV(q); }
void harness(void)
{
	static mpq_rawlpdata raw; static mpq_ILLlpdata lpd; static mpq_colptr node[NCR][NPC]; static mpq_colptr *cols[NCR];
	int colindex[NCR], want[NCF], i, k, rv, rep = 0;
	qsv_init_globals();
	for (i = 0; i < NCF; i++) want[i] = 0;
	colindex[0] = pick(0, NCF - 1); colindex[1] = pick(0, NCF - 1); ASSUME(colindex[0] != colindex[1]);
	for (i = 0; i < NCR; i++) {
		int n = pick(0, NPC), nobj = 0;
		cols[i] = 0;
		for (k = 0; k < NPC; k++) if (k < n) {
			int row = pick(0, 2), v = pick(-3, 3);
			qsv_setnum(node[i][k].coef, v); node[i][k].this_val = row; node[i][k].next = cols[i]; cols[i] = &node[i][k];
			if (row == 0) { want[colindex[i]] += v; nobj++; }
		}
		if (nobj >= 2) rep = 1;
	}
	raw.ncols = NCR; raw.nrows = 3; raw.cols = cols; raw.error_collector = 0; raw.objindex = 0; raw.coltab.tablesize = 0;
	lpd.ncols = NCF; lpd.obj = 0;
	rv = __CPROVER_file_local_rawlp_mpq_c_transferObjective(&raw, &lpd, colindex);
	ASSERT(rv == 0, "C10: the objective of every raw problem is converted");
	if (rv == 0) for (i = 0; i < NCF; i++)
		ASSERT(V(lpd.obj[i]) == want[i], "C10: repeated terms add up -- an objective coefficient is the sum of all terms read for that variable, 0 if there is none");
	COVER_MUST(rep && want[colindex[0]] != 0, "repeated_objective_term");
	REACH_END();
}
QSV_MAIN(harness)
