/* C11 / C17: buildMatrix (static, rawlp.c, REAL) on the CONSTRUCTED raw problem "an unused column (only in a free N row)
 * stored before a column with two coefficients in the same constraint row": the "Multiple coefficients" diagnostic
 * must name the column through the raw problem's name table, not index the final problem's name array with the raw
 * column index (out of bounds as soon as an earlier column was dropped).  Obligations: every pointer / bounds
 * obligation of buildMatrix on this shape; the merged entry is the sum (payload model: sums are opaque, so only the
 * structure is asserted).  Concrete shape, symbolic coefficient values. */
#include <string.h>
#include <stdarg.h>
#include "qsv.h"
#include "qs_config.h"
#include "rawlp_mpq.h"
#include "lpdata_mpq.h"
int __CPROVER_file_local_rawlp_mpq_c_buildMatrix(mpq_rawlpdata *raw, mpq_ILLlpdata *lp, int *rowindex, int *colindex);
static int warns;
void mpq_ILLdata_warn(mpq_qserror_collector *collector, const char *format, ...) { warns++; }
const char *mpq_ILLraw_colname(mpq_rawlpdata *lp, int i) { __CPROVER_assert(0 <= i && i < lp->ncols, "raw column name asked for a raw column index"); return "c"; }
#ifdef SHAPE2
/* second constructed shape: an OBJECTIVE-ONLY column (no constraint coefficient) stored before an ordinary column.  The
 * empty column owns one marker slot of its own; the next column starts behind it (the in-place column store lets a column
 * grow into a slot that looks free). */
void harness(void)
{
	static mpq_rawlpdata raw; static mpq_ILLlpdata lpd; static mpq_colptr node[2]; static mpq_colptr *cols[2];
	static char nm[2] = "x"; char **colnames = malloc(sizeof(char *) * 2);
	int rowindex[2] = { -1, 0 }, colindex[2] = { 0, 1 }, rv, v = nondet_int();
	qsv_init_globals();
	__CPROVER_assume(colnames != 0); colnames[0] = nm; colnames[1] = nm;
	qsv_setnum(node[0].coef, nondet_int()); node[0].this_val = 0; node[0].next = 0; cols[0] = &node[0];	/* objective row only */
	qsv_setnum(node[1].coef, v); node[1].this_val = 1; node[1].next = 0; cols[1] = &node[1];
	raw.ncols = 2; raw.nrows = 2; raw.cols = cols; raw.error_collector = 0;
	lpd.ncols = 2; lpd.nrows = 1; lpd.nzcount = 0; lpd.colnames = colnames;
	rv = __CPROVER_file_local_rawlp_mpq_c_buildMatrix(&raw, &lpd, rowindex, colindex);
	ASSERT(rv == 0 && lpd.A.matcnt[0] == 0 && lpd.A.matcnt[1] == 1 && lpd.nzcount == 1, "C10: the objective-only column has no constraint entry, the other column has one");
	ASSERT(lpd.A.matbeg[0] == 0 && lpd.A.matbeg[1] == 1 && lpd.A.matind[0] != -1 && lpd.A.matind[1] == 0 && NUMV(lpd.A.matval[1]) == v && lpd.A.matsize == 3 && lpd.A.matind[2] == -1 && lpd.A.matfree == 1,
		"C06/C11: an empty column owns a marker slot of its own and the next column starts behind it; sizes and end marker describe exactly this");
	REACH_END();
}
#else
void harness(void)
{
	static mpq_rawlpdata raw; static mpq_ILLlpdata lpd; static mpq_colptr node[3]; static mpq_colptr *cols[2];
	static char nm[2] = "x"; char **colnames = malloc(sizeof(char *) * 1);	/* the final problem has ONE column */
	int rowindex[3] = { -1, -1, 0 }, colindex[2] = { -1, 0 }, rv;
	qsv_init_globals();
	__CPROVER_assume(colnames != 0); colnames[0] = nm;
	qsv_setnum(node[0].coef, nondet_int()); node[0].this_val = 1; node[0].next = 0; cols[0] = &node[0];	/* column 0: free N row only -> unused */
	qsv_setnum(node[1].coef, nondet_int()); node[1].this_val = 2; node[1].next = 0;
	qsv_setnum(node[2].coef, nondet_int()); node[2].this_val = 2; node[2].next = &node[1]; cols[1] = &node[2];	/* column 1: two terms in constraint row 2 */
	raw.ncols = 2; raw.nrows = 3; raw.cols = cols; raw.error_collector = 0;
	lpd.ncols = 1; lpd.nrows = 1; lpd.nzcount = 0; lpd.colnames = colnames;
	rv = __CPROVER_file_local_rawlp_mpq_c_buildMatrix(&raw, &lpd, rowindex, colindex);
	ASSERT(rv == 0 && lpd.A.matcnt[0] == 1 && lpd.A.matind[lpd.A.matbeg[0]] == 0 && lpd.nzcount == 1 && warns == 1, "C10: the two terms become one entry of the only column, with one warning");
	REACH_END();
}
#endif
QSV_MAIN(harness)
