/* C06 / C07 / C17: mpq_ILLlib_addrow (lib.c, REAL, with the real static matrix_addrow / matrix_addcol) as a bounded
 * contract check against a dense reference model.
 * Start state: NS = 2 structural columns, one existing row (so 3 internal columns, structurals first or logical first),
 * arbitrary well-formed sparse layout, arbitrary data; optional range array; row / column arrays either FULL
 * (capacity == count, so the call must grow every array by EXTRA_ROWS / EXTRA_COLS) or with room for one more.
 * The new row: cnt <= 2 entries with arbitrary column indices (possibly invalid), arbitrary sense byte, rhs, range, name.
 * The name table is a stub: the new name may collide with an existing one.
 * Contract:  valid := every column index in [0, nstruct), indices distinct, sense in {L,G,E,R}, name new
 *   valid  ==> 0, and the problem is the old one plus exactly this row: counts, rhs/sense/range/name of the new row, its
 *              logical column (single entry, coefficient by sense, bounds [0,inf] / [0,0] / [0,range]), each given
 *              coefficient stored, every old coefficient and datum unchanged, nonzero count, representation invariant;
 *              every per-row / per-column array is long enough for the new count (checked by the bounds obligations)
 *   !valid ==> non-zero and the observable problem (counts, old rows, old coefficients, matrix extents) is unchanged
 * The realloc branch of the matrix (EXTRA_MAT = 1000) is cut: excluded by precondition, asserted unreachable. */
#include "lib_contracts.h"
struct qsv_ghost qsv_g;
int g_sinfo_freed, g_name_collides, g_registered;
void mpq_ILLlp_sinfo_free(mpq_ILLlp_sinfo *s) { g_sinfo_freed = 1; }
void mpq_ILLlp_rows_clear(mpq_ILLlp_rows *r) { }
int mpq_ILLlib_findName(mpq_ILLlpdata *qslp, int forRow, const char *name, int id, char buf[ILL_namebufsize]) { buf[0] = 'n'; buf[1] = 0; return g_name_collides; }
int ILLsymboltab_register(ILLsymboltab *h, const char *s, int itemindex, int *the_index, int *existed) { *the_index = itemindex; *existed = g_name_collides; if (!g_name_collides) g_registered++; return 0; }
char *ILLutil_str(const char *s) { char *r = malloc(2); if (r) { r[0] = s[0]; r[1] = 0; } return r; }
#define NS 2
#define NR0 1
#define NC0 3
#define MAXSZ 16
static int pick(int lo_, int hi_) { int v = (int) (nondet_uint() & 7u) + lo_; ASSUME(v <= hi_); return v; }
static mpq_ILLlpdata *O;
static int D[2][NS], S[2][NS], rhs0, rng0, lcoef0, lup0, nz0, beg0[NC0], cnt0[NC0], smap[NS];
static char sense0;
static void build(void)
{
	mpq_ILLmatrix *A; int i, j, k, pos = 0, lf = nondet_bool(), lcol = lf ? 0 : 2;
#ifdef FULL
	const int rowsize = NR0, colsize = NC0;
#else
	const int rowsize = NR0 + 1, colsize = NC0 + 1;
#endif
	O = qsv_alloc(sizeof *O); A = &O->A;
	O->nrows = NR0; O->nstruct = NS; O->ncols = NC0; O->rowsize = rowsize; O->colsize = colsize; O->structsize = NS; O->rA = 0; O->sinfo = 0; O->nzcount = 0;
	O->structmap = qsv_alloc(sizeof(int) * NS); O->rowmap = qsv_alloc(sizeof(int) * rowsize);
	for (j = 0; j < NS; j++) { smap[j] = lf ? j + 1 : j; O->structmap[j] = smap[j]; }
	O->rowmap[0] = lcol;
	O->rhs = qsv_numarray(rowsize); O->sense = qsv_alloc(rowsize); O->rownames = qsv_alloc(sizeof(char *) * rowsize);
	O->rangeval = nondet_bool() ? qsv_numarray(rowsize) : 0;
	O->obj = qsv_numarray(colsize); O->lower = qsv_numarray(colsize); O->upper = qsv_numarray(colsize);
	A->matrows = NR0; A->matcols = NC0; A->matcolsize = colsize;
	A->matbeg = qsv_alloc(sizeof(int) * colsize); A->matcnt = qsv_alloc(sizeof(int) * colsize); A->matind = qsv_alloc(sizeof(int) * MAXSZ); A->matval = qsv_numarray(MAXSZ);
	for (i = 0; i < MAXSZ; i++) { A->matind[i] = -1; qsv_setnum(A->matval[i], 0); }
	for (i = 0; i < 2; i++) for (j = 0; j < NS; j++) { D[i][j] = 0; S[i][j] = 0; }
	for (i = 0; i < NC0; i++) {
		A->matbeg[i] = pos;
		if (i == lcol) { sense0 = "LGER"[pick(0, 3)]; lcoef0 = (sense0 == 'G' || sense0 == 'R') ? -1 : 1; A->matcnt[i] = 1; A->matind[pos] = 0; qsv_setnum(A->matval[pos], lcoef0); pos++; O->nzcount++;
			rng0 = (sense0 == 'R') ? pick(0, 5) : 0; lup0 = sense0 == 'E' ? 0 : sense0 == 'R' ? rng0 : QSV_INF; qsv_setnum(O->upper[i], lup0); qsv_setnum(O->lower[i], 0); qsv_setnum(O->obj[i], 0); }
		else { int cnt = pick(0, 1); j = lf ? i - 1 : i; A->matcnt[i] = cnt; if (cnt == 0) A->matind[pos++] = 1; else { int v = qsv_nondet_payload(); ASSUME(v != 0); A->matind[pos] = 0; qsv_setnum(A->matval[pos], v); pos++; D[0][j] = v; S[0][j] = 1; O->nzcount++; }
			qsv_setnum(O->obj[i], j + 10); qsv_setnum(O->lower[i], 0); qsv_setnum(O->upper[i], 50 + j); }
#ifdef HOLES
		pos += pick(0, 1);
#endif
	}
	{ int fr = 9; A->matsize = pos + fr; A->matfree = fr; ASSUME(A->matsize <= MAXSZ); }
	if (sense0 == 'R') ASSUME(O->rangeval != 0);
	rhs0 = qsv_nondet_payload(); qsv_setnum(O->rhs[0], rhs0); O->sense[0] = sense0; O->rownames[0] = 0; if (O->rangeval) qsv_setnum(O->rangeval[0], rng0);
	nz0 = O->nzcount; for (i = 0; i < NC0; i++) { beg0[i] = A->matbeg[i]; cnt0[i] = A->matcnt[i]; }
}
static int lookup(int r, int c, int *found)
{ mpq_ILLmatrix *A = &O->A; int k, v = 0; *found = 0; for (k = 0; k < 2; k++) if (k < A->matcnt[c] && A->matind[A->matbeg[c] + k] == r) { ASSERT(!*found, "C06 wf: a row occurs at most once in a column"); *found = 1; v = NUMV(A->matval[A->matbeg[c] + k]); } return v; }
static void check_wf(int ncols, int nrows)
{
	mpq_ILLmatrix *A = &O->A; int j, k, i, used = A->matsize - A->matfree, owned[MAXSZ], nz = 0;
	ASSERT(A->matcols == ncols && A->matrows == nrows && O->ncols == ncols && O->nrows == nrows && A->matsize <= MAXSZ && A->matfree >= 0 && used >= 0, "C06 wf: matrix and problem dimensions agree");
	for (i = 0; i < MAXSZ; i++) owned[i] = 0;
	for (j = 0; j < NC0 + 1; j++) if (j < ncols) { int beg = A->matbeg[j], cnt = A->matcnt[j], e = cnt > 0 ? cnt : 1;
		ASSERT(0 <= cnt && cnt <= 2 && 0 <= beg && beg + e <= used, "C06 wf: every column's extent lies inside the used region");
		for (k = 0; k < 3; k++) if (k < e) { ASSERT(!owned[beg + k], "C06 wf: column extents are pairwise disjoint"); owned[beg + k] = 1; }
		for (k = 0; k < 2; k++) if (k < cnt) ASSERT(0 <= A->matind[beg + k] && A->matind[beg + k] < nrows, "C06 wf: row indices in range");
		nz += cnt; }
	for (i = 0; i < MAXSZ; i++) if (i >= used && i < A->matsize) ASSERT(A->matind[i] == -1, "C06 wf: the free tail is unused (all -1)");
	ASSERT(O->nzcount == nz, "C06 view: the nonzero count equals the number of stored coefficients");
}
#ifdef FN_addcol
/* every array has room for one more column in this group: no growth step is expected (excluded by construction and asserted
 * unreachable, like the cut of matrix_addrow_end in the addrow groups) */
#ifndef FULL
void *realloc(void *p, size_t n) { __CPROVER_assert(0, "addcol/room1: no array growth is expected (room for one more column everywhere)"); __CPROVER_assume(0); return p; }
#endif
/* ---- mpq_ILLlib_addcol (lib.c, REAL, with the real static matrix_addcol) from the same start state ----
 * The new column: cnt <= 1 entries with an arbitrary row index (possibly invalid), arbitrary objective coefficient and
 * bounds, a name that may collide.  No basis is passed.
 *   valid := every row index in [0, nrows) and the name is new
 *   valid  ==> 0, and the problem is the old one plus exactly this structural column (counts, column map, objective,
 *              bounds, the coefficient given, every old coefficient and datum unchanged, nonzero count, representation invariant)
 *   !valid ==> non-zero and the observable problem -- counts, rows, coefficients, matrix extents AND the name table -- is unchanged */
void harness(void)
{
	mpq_lpinfo *lp; int rv, cnt, ind[1], vv, j, f, valid = 1, objv = nondet_int(), lov = nondet_int(), upv = nondet_int();
	mpq_t val[1], obj, lo, up;
	qsv_init_globals();
	build();
	/* room for one more structural column (the growth step by EXTRA_COLS = 100 is not part of this group) */
#ifdef FULL
	/* addcol/grow1: every per-column array is full (colsize == ncols by build(), structsize == nstruct here): the call must grow
	 * lower / upper / obj, structmap, colnames, the integer marks (when present) and the matrix's column arrays */
	O->colnames = qsv_alloc(sizeof(char *) * NS); O->colnames[0] = 0; O->colnames[1] = 0;
	O->intmarker = nondet_bool() ? qsv_alloc(NS) : 0; if (O->intmarker) { O->intmarker[0] = 1; O->intmarker[1] = 0; }
#else
	{ int *sm = qsv_alloc(sizeof(int) * (NS + 1)); sm[0] = O->structmap[0]; sm[1] = O->structmap[1]; O->structmap = sm; O->structsize = NS + 1; }
	O->colnames = qsv_alloc(sizeof(char *) * (NS + 1)); O->colnames[0] = 0; O->colnames[1] = 0; O->colnames[2] = 0; O->intmarker = 0;
#endif
	lp = qsv_mk_lpinfo(O);
#ifdef ACNT
	cnt = ACNT;	/* compile-time entry count: keeps the matrix's own realloc test (matfree < cnt + 1) decidable during symbolic execution */
#else
	cnt = pick(0, 1);
#endif
	ind[0] = pick(0, 2) - 1; vv = pick(1, 5); qsv_setnum(val[0], vv);
	qsv_setnum(obj, objv); qsv_setnum(lo, lov); qsv_setnum(up, upv);
	g_name_collides = nondet_bool();
	if ((cnt == 1 && (ind[0] < 0 || ind[0] >= NR0)) || g_name_collides) valid = 0;
	rv = mpq_ILLlib_addcol(lp, 0, cnt, ind, val, obj, lo, up, "n", 0);
	ASSERT((rv == 0) == valid, "C07: accepted iff every row index names a row and the name is new");
	if (rv != 0) {
		check_wf(NC0, NR0);
		ASSERT(O->nstruct == NS && O->nzcount == nz0 && g_registered == 0, "C07: a rejected column leaves counts and the name table untouched");
		for (j = 0; j < NS; j++) { int v = lookup(0, smap[j], &f); ASSERT(f == S[0][j] && (!f || v == D[0][j]) && O->structmap[j] == smap[j], "C07: a rejected column leaves every coefficient and the column map untouched"); }
	} else {
		int v;
		check_wf(NC0 + 1, NR0);
		ASSERT(O->nstruct == NS + 1 && O->structmap[NS] == NC0 && g_registered == 1 && O->colnames[NS] != 0, "C06: one structural column (and its name) was added as the last internal column");
		ASSERT(NUMV(O->obj[NC0]) == objv && NUMV(O->lower[NC0]) == lov && NUMV(O->upper[NC0]) == upv, "C06: the new column reports the objective coefficient and bounds given");
		v = lookup(0, NC0, &f); ASSERT(f == (cnt == 1) && (!f || v == vv) && O->nzcount == nz0 + cnt, "C06: the new column has exactly the coefficient given");
		for (j = 0; j < NS; j++) { v = lookup(0, smap[j], &f); ASSERT(f == S[0][j] && (!f || v == D[0][j]) && O->structmap[j] == smap[j] && NUMV(O->obj[smap[j]]) == j + 10 && NUMV(O->upper[smap[j]]) == 50 + j, "C06: every old column keeps its coefficients, objective, bounds and place"); }
		ASSERT(NUMV(O->rhs[0]) == rhs0 && O->sense[0] == sense0 && O->rowmap[0] == (smap[0] == 0 ? 2 : 0), "C06: the row keeps rhs, sense and logical column");
#ifdef FULL
		ASSERT(O->structsize >= NS + 1 && O->colsize >= NC0 + 1 && O->A.matcolsize >= NC0 + 1, "C06: the capacities recorded cover the new column");
		ASSERT(O->intmarker == 0 || (O->intmarker[0] == 1 && O->intmarker[1] == 0 && O->intmarker[NS] == 0), "C06: the integer marks of the old columns are kept and the new column is continuous");
#endif
	}
#if defined(ACNT) && ACNT == 0
	COVER_MUST(rv == 0 && cnt == 0, "added");
	COVER_MUST(rv != 0, "bad_row_index");
#else
	COVER_MUST(rv == 0 && cnt == 1, "added");
	COVER_MUST(rv != 0 && !g_name_collides, "bad_row_index");
#endif
	REACH_END();
}
#else
void harness(void)
{
	mpq_lpinfo *lp; int rv, cnt, ind[2], vv[2], i, j, f, valid = 1, need = 0;
	mpq_t val[2], rhs, range; IN_CHAR(sense); IN_INT(rhsv); IN_INT(rngv);
	mpq_ILLlp_basis *B = 0; char cst0[NS], rst0[NR0];
	qsv_init_globals();
	build();
	lp = qsv_mk_lpinfo(O);
#ifdef WITH_BASIS
	/* addrow/basis_c*: the caller's basis object is passed: it must grow by one row whose logical is basic, keep every
	 * other status, and stay untouched when the row is rejected */
	B = qsv_alloc(sizeof *B); B->nstruct = NS; B->nrows = NR0; B->cstat = qsv_alloc(NS); B->rstat = qsv_alloc(NR0); B->rownorms = 0; B->colnorms = 0;
	for (j = 0; j < NS; j++) { cst0[j] = (char) ('0' + pick(0, 3)); B->cstat[j] = cst0[j]; }
	rst0[0] = (char) ('0' + pick(0, 2)); B->rstat[0] = rst0[0];
#endif
#ifdef RCNT
	cnt = RCNT;	/* compile-time entry count (see addcol/grow*) */
#elif defined(CNT1)
	cnt = pick(0, 1);
#else
	cnt = pick(0, 2);
#endif
	ASSUME(0 <= rngv && rngv < 1000 && -1000 < rhsv && rhsv < 1000);
	for (i = 0; i < 2; i++) { ind[i] = pick(0, 3) - 1; vv[i] = pick(1, 5); qsv_setnum(val[i], vv[i]); }
	qsv_setnum(rhs, rhsv); qsv_setnum(range, rngv);
	g_name_collides = nondet_bool();
	for (i = 0; i < 2; i++) if (i < cnt && (ind[i] < 0 || ind[i] >= NS)) valid = 0;
	if (cnt == 2) ASSUME(ind[0] != ind[1]);	/* caller precondition: a row lists each column at most once (not checked by the library) */
	if (!(sense == 'L' || sense == 'G' || sense == 'E' || sense == 'R') || g_name_collides) valid = 0;
	/* room in the matrix: worst case every touched column has to move (count + 2 slots each) plus the logical */
	for (i = 0; i < 2; i++) if (i < cnt && ind[i] >= 0 && ind[i] < NS) need += cnt0[smap[ind[i]]] + 2;
	(void) need;	/* the free tail (9 slots) covers the worst case of two moved columns (2 x 3) twice over plus the logical: the matrix never reallocates */
	rv = mpq_ILLlib_addrow(lp, B, cnt, ind, (const mpq_t *) val, rhs, sense, range, "n");
#ifdef WITH_BASIS
	if (rv != 0) ASSERT(B->nstruct == NS && B->nrows == NR0 && B->rstat[0] == rst0[0] && B->cstat[0] == cst0[0] && B->cstat[1] == cst0[1], "C07: a rejected row leaves the caller's basis untouched");
	else ASSERT(B->nstruct == NS && B->nrows == NR0 + 1 && B->rstat[0] == rst0[0] && B->rstat[NR0] == QS_ROW_BSTAT_BASIC && B->cstat[0] == cst0[0] && B->cstat[1] == cst0[1],
		"C06/C12: the caller's basis grows by the new row with its logical basic; every other status is kept");
#endif
	ASSERT((rv == 0) == valid, "C07: accepted iff every column index names a structural column, no column is listed twice, the sense is one of L, G, E, R and the name is new");
	if (rv != 0) {
		check_wf(NC0, NR0);
		ASSERT(NUMV(O->rhs[0]) == rhs0 && O->sense[0] == sense0 && O->nzcount == nz0 && g_registered == 0, "C07: a rejected row leaves counts, rows and the name table untouched");
		for (j = 0; j < NS; j++) { int v = lookup(0, smap[j], &f); ASSERT(f == S[0][j] && (!f || v == D[0][j]), "C07: a rejected row leaves every coefficient untouched"); }
	} else {
		int lc = O->rowmap[NR0];
		check_wf(NC0 + 1, NR0 + 1);
		ASSERT(O->nstruct == NS && g_registered == 1, "C06: one row (and its name) was added, no structural column");
		ASSERT(NUMV(O->rhs[NR0]) == rhsv && O->sense[NR0] == sense && (sense != 'R' || (O->rangeval != 0 && NUMV(O->rangeval[NR0]) == rngv)) && (sense == 'R' || O->rangeval == 0 || NUMV(O->rangeval[NR0]) == 0), "C06: the new row reports the rhs, sense and range given (range 0 unless ranged)");
		ASSERT(lc == NC0 && O->A.matcnt[lc] == 1 && O->A.matind[O->A.matbeg[lc]] == NR0 && NUMV(O->A.matval[O->A.matbeg[lc]]) == ((sense == 'G' || sense == 'R') ? -1 : 1) && NUMV(O->lower[lc]) == 0 && NUMV(O->upper[lc]) == (sense == 'E' ? 0 : sense == 'R' ? rngv : QSV_INF) && NUMV(O->obj[lc]) == 0,
			"C06: the new row's logical column is a singleton with the coefficient and bounds of its sense");
		ASSERT(NUMV(O->rhs[0]) == rhs0 && O->sense[0] == sense0 && O->rowmap[0] == (smap[0] == 0 ? 2 : 0) && (!O->rangeval || NUMV(O->rangeval[0]) == rng0), "C06: the existing row keeps rhs, sense, range and logical column");
		for (j = 0; j < NS; j++) {
			int given = -1, v; for (i = 0; i < 2; i++) if (i < cnt && ind[i] == j) given = i;
			v = lookup(0, smap[j], &f); ASSERT(f == S[0][j] && (!f || v == D[0][j]), "C06: every old coefficient is unchanged");
			v = lookup(NR0, smap[j], &f); ASSERT(f == (given >= 0) && (!f || v == vv[given]), "C06: the new row has exactly the coefficients given");
			ASSERT(NUMV(O->obj[smap[j]]) == j + 10 && NUMV(O->upper[smap[j]]) == 50 + j, "C06: structural columns keep objective and bounds");
		}
	}
#if defined(RCNT)
	COVER_MUST(rv == 0 && cnt == RCNT, "added");
#elif defined(CNT1)
	COVER_MUST(rv == 0 && cnt == 1, "added");
#else
	COVER_MUST(rv == 0 && cnt == 2, "added");
#endif
	REACH_END();
}
#endif
QSV_MAIN(harness)
