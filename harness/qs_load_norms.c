/* C18: loading a basis with row norms into a problem that already owns a basis with row norms -- the warm-start pattern
 * QSload_basis_and_row_norms_array (qsopt.c, REAL, with the REAL QSload_basis_array, check_basis_arrays and
 * ILLlp_basis_init / alloc / free of lpdata.c).  The old basis, including its norm arrays and the numbers in them, is
 * released; afterwards releasing the problem's basis leaves nothing allocated (GMP model TOKENS, memory-leak check), and
 * the norms stored are the ones given.  Concrete dimensions (1 column, 2 rows: size-header arrays), symbolic norm values,
 * old basis with or without row / column norms. */
#include <string.h>
#include "qsv.h"
#include "qs_config.h"
#include "logging-private.h"
#include "eg_macros.h"
#include "eg_lpnum.h"
#include "qsopt_mpq.h"
#include "lpdata_mpq.h"
extern int qsv_gmp_live;
void harness(void)
{
	mpq_QSdata *p = qsv_alloc(sizeof *p);
	char cstat[1] = { QS_COL_BSTAT_LOWER }, rstat[2] = { QS_ROW_BSTAT_BASIC, QS_ROW_BSTAT_BASIC };
	mpq_t *norms; int rv, live0, i, v0 = nondet_int(), v1 = nondet_int(); IN_BOOL(old_basis); IN_BOOL(old_rn); IN_BOOL(old_cn);
	qsv_init_globals();
	live0 = qsv_gmp_live;
	p->qslp = qsv_alloc(sizeof *p->qslp); p->lp = qsv_alloc(sizeof *p->lp); p->lp->O = p->qslp;
	p->qslp->nstruct = 1; p->qslp->nrows = 2; p->qslp->ncols = 3; p->qslp->sense = qsv_alloc(2); p->qslp->sense[0] = 'L'; p->qslp->sense[1] = 'G'; p->qslp->rangeval = 0;
	p->pricing = 0; p->name = 0; p->cache = 0; p->factorok = nondet_bool(); p->qstatus = nondet_int(); p->basis = 0;
	if (old_basis) {
		p->basis = qsv_alloc(sizeof *p->basis); mpq_ILLlp_basis_init(p->basis);
		p->basis->nstruct = 1; p->basis->nrows = 2; p->basis->cstat = qsv_alloc(1); p->basis->rstat = qsv_alloc(2);
		if (old_rn) p->basis->rownorms = mpq_EGlpNumAllocArray(2);
		if (old_cn) p->basis->colnorms = mpq_EGlpNumAllocArray(1);
	}
	norms = mpq_EGlpNumAllocArray(2); mpq_set_si(norms[0], v0, 1UL); mpq_set_si(norms[1], v1, 1UL);
	rv = mpq_QSload_basis_and_row_norms_array(p, cstat, rstat, norms);
	ASSERT(rv == 0 && p->basis != 0 && p->basis->rownorms != 0 && NUMV(p->basis->rownorms[0]) == v0 && NUMV(p->basis->rownorms[1]) == v1 && p->factorok == 0,
		"C12/C05: a valid basis with norms is accepted, the norms stored are the ones given, the old factorization is dropped");
	mpq_EGlpNumFreeArray(norms);
	mpq_ILLlp_basis_free(p->basis); free(p->basis); free(p->qslp->sense); free(p->qslp); free(p->lp); free(p);
	ASSERT(qsv_gmp_live == live0, "C18: every number of the old and of the new norm arrays is cleared once the basis is released");
	COVER_MUST(old_basis && old_rn, "old_basis_with_row_norms");
	REACH_END();
}
QSV_MAIN(harness)
