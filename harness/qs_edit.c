/* the public edit wrappers of qsopt.c under the contracts of qsopt_contracts.h (C05 I1/I2, C07 I3).
 * One section per wrapper (-DFN_<name>).  The library callee is a nondeterministic stub. */
#include "qsopt_contracts.h"
struct qsv_ghost qsv_g;
int g_old_objsense;
int g_lib_rv, g_lib_called, g_cache_freed, g_basis_freed, g_basis_ok, g_cache_ok, g_factorok_out, g_factorok_in, g_sinfo_freed;

#define STUB_RET() do { g_lib_called = 1; g_lib_rv = nondet_rv(); return g_lib_rv; } while (0)
#ifdef QSV_CBMC
static int nondet_rv(void) { return nondet_int(); }
#else
static int nondet_rv(void) { return (int) qsv_in("lib_rv"); }
#endif
static int nondet01(const char *nm)
{
#ifdef QSV_CBMC
	return nondet_bool();
#else
	return qsv_in(nm) != 0;
#endif
}
/* ---- stubs of the library callees (other translation unit: lib.c, lpdata.c, simplex.c) ---- */
void mpq_ILLlp_cache_free(mpq_ILLlp_cache *C) { g_cache_freed = 1; }
void mpq_ILLlp_basis_free(mpq_ILLlp_basis *B) { g_basis_freed = 1; }
const mpq_t *g_bound_ptr; int g_bound_sense, g_bound_calls;
void mpq_ILLsimplex_set_bound(mpq_lpinfo *lp, const mpq_t *objbound, int sense) { g_lib_called = 1; g_bound_ptr = objbound; g_bound_sense = sense; g_bound_calls++; }
int mpq_ILLlib_chgcoef(mpq_lpinfo *lp, int r, int c, mpq_t coef) { STUB_RET(); }
int mpq_ILLlib_chgsense(mpq_lpinfo *lp, int num, int *rowlist, char *sense)
{	/* assumed fact of ILLlib_chgsense (decided in lib/chgsense_b): it succeeds only if every listed row index is in range; list length capped (constant-range quantifier) */
	g_lib_called = 1; g_lib_rv = nondet_rv();
#ifdef QSV_CBMC
	if (g_lib_rv == 0) { __CPROVER_assume(num <= QSV_MAPCAP); __CPROVER_assume(__CPROVER_forall { int k; (0 <= k && k < QSV_MAPCAP) ==> (k < num ==> (0 <= rowlist[k] && rowlist[k] < lp->O->nrows)) }); }
#endif
	return g_lib_rv;
}
int mpq_ILLlib_chgrange(mpq_lpinfo *lp, int indx, mpq_t coef) { STUB_RET(); }
int mpq_ILLlib_chgobj(mpq_lpinfo *lp, int indx, mpq_t coef) { STUB_RET(); }
int mpq_ILLlib_chgrhs(mpq_lpinfo *lp, int indx, mpq_t coef) { STUB_RET(); }
int mpq_ILLlib_chgbnd(mpq_lpinfo *lp, int indx, int lu, const mpq_t bnd) { STUB_RET(); }
int mpq_ILLlib_chgbnds(mpq_lpinfo *lp, int cnt, int *indx, char *lu, const mpq_t *bnd) { STUB_RET(); }
int mpq_ILLlib_newrow(mpq_lpinfo *lp, mpq_ILLlp_basis *B, const mpq_t rhs, int sense, const mpq_t range, const char *name) { STUB_RET(); }
int mpq_ILLlib_newcol(mpq_lpinfo *lp, mpq_ILLlp_basis *B, const mpq_t obj, const mpq_t lower, const mpq_t upper, const char *name, int factorok)
{ g_factorok_in = factorok; STUB_RET(); }
int mpq_ILLlib_addcol(mpq_lpinfo *lp, mpq_ILLlp_basis *B, int cnt, int *ind, mpq_t *val, const mpq_t obj, const mpq_t lower, const mpq_t upper, const char *name, int factorok)
{ g_factorok_in = factorok; STUB_RET(); }
int mpq_ILLlib_addcols(mpq_lpinfo *lp, mpq_ILLlp_basis *B, int num, int *cmatcnt, int *cmatbeg, int *cmatind, mpq_t *cmatval, mpq_t *obj, mpq_t *lower, mpq_t *upper, const char **names, int factorok)
{ g_factorok_in = factorok; STUB_RET(); }
int mpq_ILLlib_addrows(mpq_lpinfo *lp, mpq_ILLlp_basis *B, int num, int *rmatcnt, int *rmatbeg, int *rmatind, const mpq_t *rmatval, const mpq_t *rhs, char *sense, const mpq_t *range, const char **names, int *factorok)
{	/* assumed facts of ILLlib_addrows (lib.c:973-977, 1122): without a basis carrying row norms the
	 * flag is cleared; it can only come back as 1 after the callee refactored the extended basis */
	if (factorok) { *factorok = (B != 0 && B->rownorms != 0) ? nondet01("factorok_out") : 0; g_factorok_out = *factorok; } STUB_RET(); }
int mpq_ILLlib_loadrownorms(mpq_lpinfo *lp, mpq_price_info *pinf, mpq_t *rownorms) { return nondet_rv(); }
int mpq_ILLlib_delrows(mpq_lpinfo *lp, mpq_ILLlp_basis *B, mpq_ILLlp_cache *C, int num, int *dellist, int *basis_ok, int *cache_ok)
{	/* assumed facts of ILLlib_delrows (lib.c:1368-1378, 1421-1494): nothing to delete => both flags 1;
	 * otherwise basis_ok needs a basis, cache_ok needs basis_ok and a cache */
	if (num <= 0) { g_basis_ok = 1; g_cache_ok = 1; }
	else { g_basis_ok = (B != 0) && nondet01("basis_ok"); g_cache_ok = g_basis_ok && (C != 0) && nondet01("cache_ok"); }
	if (basis_ok) *basis_ok = g_basis_ok; if (cache_ok) *cache_ok = g_cache_ok; STUB_RET(); }
int mpq_ILLlib_delcols(mpq_lpinfo *lp, mpq_ILLlp_basis *B, int num, int *dellist, int *basis_ok)
{ g_basis_ok = nondet01("basis_ok"); if (basis_ok) *basis_ok = g_basis_ok; STUB_RET(); }

static mpq_QSdata *mk_qsdata(void)
{
	mpq_QSdata *p;
	IN_BOOL(p_null);
	if (p_null) return 0;
	p = qsv_alloc(sizeof *p);
	p->qslp = qsv_alloc(sizeof *p->qslp);
	p->lp = qsv_alloc(sizeof *p->lp);
	p->lp->O = p->qslp;
	p->pricing = 0; p->name = 0;
	{ IN_BOOL(has_cache); p->cache = has_cache ? qsv_alloc(sizeof *p->cache) : 0; }
	{ IN_BOOL(has_basis); p->basis = has_basis ? qsv_alloc(sizeof *p->basis) : 0; }
	if (p->basis) { IN_BOOL(has_rownorms); p->basis->rownorms = has_rownorms ? (mpq_t *) qsv_alloc(sizeof(mpq_t)) : 0; }
#if defined(FN_QSchange_senses) || defined(FN_QSchange_sense)
	{ IN_INT(nrows); ASSUME(1 <= nrows && nrows <= QSV_MAPCAP); p->qslp->nrows = nrows; if (p->basis) { IN_BOOL(has_rstat); p->basis->nrows = nrows; p->basis->rstat = has_rstat ? qsv_alloc(QSV_MAPCAP) : 0; } }
#endif
	{ IN_INT(qstatus); p->qstatus = qstatus; }
	{ IN_BOOL(factorok); p->factorok = factorok; }
	{ IN_INT(objsense); ASSUME(objsense == QS_MIN || objsense == QS_MAX); p->qslp->objsense = objsense; }
	return p;
}

void harness(void)
{
	mpq_QSdata *p = mk_qsdata();
	mpq_ILLlp_cache *old_cache = p ? p->cache : 0;
	mpq_ILLlp_basis *old_basis = p ? p->basis : 0;
	int old_qstatus = p ? p->qstatus : 0, old_factorok = p ? p->factorok : 0;
	int rv, expect_f0 = 0, keep_f = 0, cache_may_stay = 0;
	g_old_objsense = p ? p->qslp->objsense : 0;
	mpq_t num; IN_INT(a); IN_INT(b); IN_INT(c);
	qsv_setnum(num, 0);
	g_bound_calls = 0; g_bound_ptr = 0; g_bound_sense = 0;
	g_lib_rv = 0; g_lib_called = 0; g_cache_freed = 0; g_basis_freed = 0; g_basis_ok = 0; g_cache_ok = 0;
	g_factorok_out = p ? p->factorok : 0; g_factorok_in = -1;
#if defined(FN_QSchange_coef)
	rv = mpq_QSchange_coef(p, a, b, num); expect_f0 = 1;
#elif defined(FN_QSchange_senses)
	{	/* real lists: after a successful library edit the wrapper walks them to keep the stored basis loadable */
		int *rl = qsv_alloc(sizeof(int) * QSV_MAPCAP); char *sl = qsv_alloc(QSV_MAPCAP);	/* capacity QSV_MAPCAP; the stub rejects longer lists */
		rv = mpq_QSchange_senses(p, a, rl, sl); expect_f0 = 1;
	}
#elif defined(FN_QSchange_sense)
	ASSUME(-128 <= b && b <= 127);	/* the sense is a character; wider ints are truncated by the (char) conversion */
	rv = mpq_QSchange_sense(p, a, b); expect_f0 = 1;
#elif defined(FN_QSchange_range)
	rv = mpq_QSchange_range(p, a, num); expect_f0 = 1;
#elif defined(FN_QSnew_row)
	rv = mpq_QSnew_row(p, num, a, 0); expect_f0 = 1;
#elif defined(FN_QSchange_objcoef)
	rv = mpq_QSchange_objcoef(p, a, num); keep_f = 1;
#elif defined(FN_QSchange_rhscoef)
	rv = mpq_QSchange_rhscoef(p, a, num); keep_f = 1;
#elif defined(FN_QSchange_bound)
	rv = mpq_QSchange_bound(p, a, b, num); keep_f = 1;
#elif defined(FN_QSchange_bounds)
	rv = mpq_QSchange_bounds(p, a, 0, 0, 0); keep_f = 1;
#elif defined(FN_QSnew_col)
	rv = mpq_QSnew_col(p, num, num, num, 0); keep_f = 1;
#elif defined(FN_QSadd_col)
	rv = mpq_QSadd_col(p, a, 0, 0, num, num, num, 0); keep_f = 1;
#elif defined(FN_QSadd_cols)
	rv = mpq_QSadd_cols(p, a, 0, 0, 0, 0, 0, 0, 0, 0); keep_f = 1;
#elif defined(FN_QSadd_rows)
	rv = mpq_QSadd_rows(p, a, 0, 0, 0, 0, 0, 0, 0);
#elif defined(FN_QSadd_ranged_rows)
	rv = mpq_QSadd_ranged_rows(p, a, 0, 0, 0, 0, 0, 0, 0, 0);
#elif defined(FN_QSdelete_rows)
	rv = mpq_QSdelete_rows(p, a, 0); expect_f0 = 1; cache_may_stay = 1;
#elif defined(FN_QSdelete_row)
	rv = mpq_QSdelete_row(p, a); expect_f0 = 1; cache_may_stay = 1;
#elif defined(FN_QSdelete_cols)
	rv = mpq_QSdelete_cols(p, a, 0); expect_f0 = 1;
#elif defined(FN_QSdelete_col)
	rv = mpq_QSdelete_col(p, a); expect_f0 = 1;
#elif defined(FN_QSchange_objsense)
	rv = mpq_QSchange_objsense(p, a);
	ASSERT(!(a != QS_MIN && a != QS_MAX) || rv != 0, "C07: illegal objective sense is rejected");
	if (p) ASSERT(!(rv == 0) || p->qslp->objsense == a, "C06: objective sense stored");
	keep_f = 1; cache_may_stay = 1;
	if (p && rv == 0) ASSERT(p->cache == 0 || p->cache == old_cache, "C05: cache only dropped, never replaced");
	if (p && rv == 0 && a != g_old_objsense) {
		ASSERT(p->cache == 0 && p->qstatus == QS_LP_MODIFIED, "C05: a real change of the objective sense drops the stored solution");
		ASSERT(g_bound_calls == 1 && g_bound_sense == a && g_bound_ptr == (a == QS_MAX ? (const mpq_t *) &p->lobjlim : (const mpq_t *) &p->uobjlim),
			"C05: after a sense change the simplex stops at the objective limit of the NEW sense: the upper limit when minimising, the lower limit when maximising");
	}
	if (p && rv == 0 && a == g_old_objsense) ASSERT(g_bound_calls == 0 && p->cache == old_cache, "C05: restating the current sense changes nothing");
#else
#error "select a wrapper with -DFN_<name>"
#endif
	/* harness-side restatement (evaluated by the native replay) */
	ASSERT(p != 0 || rv != 0, "C07: NULL problem pointer is rejected");
	if (p) {
		if (rv != 0)
			ASSERT(p->cache == old_cache && p->qstatus == old_qstatus && p->basis == old_basis && g_cache_freed == 0
#if !defined(FN_QSadd_rows) && !defined(FN_QSadd_ranged_rows)
				&& p->factorok == old_factorok
#endif
				, "C07/I3: a failed edit leaves cache, status, factorization flag and basis untouched");
		if (rv == 0 && !cache_may_stay)
			ASSERT(p->cache == 0 && p->qstatus == QS_LP_MODIFIED, "C05/I1: a successful edit drops the cached solution and marks the problem modified");
		if (rv == 0 && expect_f0)
			ASSERT(p->factorok == 0, "C05/I2: a successful edit of the basis matrix clears the factorization flag");
		if (keep_f)
			ASSERT(p->factorok == old_factorok, "frame: factorization flag untouched");
#if defined(FN_QSdelete_rows) || defined(FN_QSdelete_row)
		if (rv == 0 && p->cache != 0)
			ASSERT(g_basis_ok && g_cache_ok && p->basis != 0, "C05: the cached solution survives a row deletion only if the library certified basis and cache");
#endif
	}
	REACH_END();
}
QSV_MAIN(harness)
