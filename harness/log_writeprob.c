/* C20: mpq_QSwrite_prob (qsopt.c, REAL): the problem text is sent to the process's stdout only on the
 * caller's explicit request (filename == NULL); a file that cannot be opened is an error (non-zero,
 * reported through QSlog), nothing is written anywhere and stdout is not opened.
 * Stubs: EGioOpen (may fail), EGioOpenFILE/EGioClose (ghost), the report layer (QSreport_prob is
 * real; its callees ILLwrite_lp / ILLwrite_mps are ghost stubs). */
#include "qsopt_contracts.h"
#include "eg_io.h"
struct qsv_ghost qsv_g;
int g_openfile_calls, g_openfile_std, g_open_calls, g_open_failed, g_close_calls, g_written;
static EGioFile_t g_file, g_stdfile;
EGioFile_t *EGioOpen(const char *path, const char *mode)
{ g_open_calls++; if (nondet_bool()) { g_open_failed = 1; return 0; } return &g_file; }
EGioFile_t *EGioOpenFILE(FILE *f) { g_openfile_calls++; g_openfile_std = (f == stdout || f == stderr); return &g_stdfile; }
int EGioClose(EGioFile_t *f) { g_close_calls++; return 0; }
int EGioWrite(EGioFile_t *f, const char *s) { g_written = 1; return 0; }
int mpq_ILLwrite_lp(mpq_ILLlpdata *lp, mpq_qserror_collector *c) { g_written = 1; return nondet_int(); }
int mpq_ILLwrite_mps(mpq_ILLlpdata *lp, mpq_qserror_collector *c) { g_written = 1; return nondet_int(); }
void harness(void)
{
	mpq_QSdata *p = qsv_alloc(sizeof *p);
	IN_BOOL(name_null); IN_BOOL(lp_type);
	char fname[4] = "a.x";
	int rv;
	p->qslp = qsv_alloc(sizeof *p->qslp); p->lp = qsv_alloc(sizeof *p->lp); p->lp->O = p->qslp;
	rv = mpq_QSwrite_prob(p, name_null ? (const char *) 0 : (const char *) fname, lp_type ? "LP" : "MPS");
	ASSERT(name_null || g_openfile_calls == 0, "C20: stdout is opened for problem output only when the caller passes filename == NULL");
	ASSERT(!(!name_null && g_open_failed) || (rv != 0 && g_written == 0), "C20: a file that cannot be opened is an error and nothing is written");
	ASSERT(!name_null || (g_openfile_calls == 1 && g_open_calls == 0), "C20: filename == NULL selects stdout by request");
	ASSERT(g_open_failed || g_close_calls == 1, "C18: the output stream is closed exactly once");
	COVER_MUST(!name_null && g_open_failed, "open_failed");
	REACH_END();
}
QSV_MAIN(harness)
