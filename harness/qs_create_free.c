/* C18 / C17: the problem life cycle QScreate_prob -> QSfree_prob (qsopt.c, REAL, with the REAL ILLlpdata_init / ILLlpdata_free
 * of lpdata.c), allocation failure at ANY of its allocations included (CBMC's malloc may return NULL): creation either
 * delivers a problem or NULL; a delivered problem is released completely by QSfree_prob; a creation that fails part-way
 * releases what it had allocated and touches nothing else -- in particular it frees no pointer it never set.
 * GMP model TOKENS.  The simplex / pricing sub-objects are initialised and released by stubs that own nothing. */
#include <string.h>
#include "qsv.h"
#include "qs_config.h"
#include "qsopt_mpq.h"
#include "lpdata_mpq.h"
extern int qsv_gmp_live;
#include <stdarg.h>
int sprintf(char *s, const char *fmt, ...) { int i; for (i = 0; i < 7; i++) s[i] = "noname"[i]; return 6; }	/* the only use: sprintf (p->name, "noname") into 7 bytes */
void mpq_ILLsimplex_init_lpinfo(mpq_lpinfo *lp) { }
void mpq_ILLsimplex_free_lpinfo(mpq_lpinfo *lp) { }
void mpq_ILLsimplex_load_lpinfo(mpq_ILLlpdata *qslp, mpq_lpinfo *lp) { lp->O = qslp; }
void mpq_ILLprice_init_pricing_info(mpq_price_info *pinf) { }
void mpq_ILLprice_free_pricing_info(mpq_price_info *pinf) { }
void mpq_ILLlp_rows_clear(mpq_ILLlp_rows *r) { }
void mpq_ILLlp_sinfo_free(mpq_ILLlp_sinfo *s) { }
void harness(void)
{
	mpq_QSdata *p; int live0; IN_BOOL(named); IN_INT(sense);
	qsv_init_globals();
	live0 = qsv_gmp_live;
	p = mpq_QScreate_prob(named ? "ab" : 0, sense);
	if (p) {
		ASSERT(p->qslp != 0 && p->lp != 0 && p->pricing != 0 && p->name != 0 && p->basis == 0 && p->cache == 0 && p->qstatus == QS_LP_UNSOLVED, "C06: a created problem is complete and unsolved");
		ASSERT(p->qslp->objsense == (sense == QS_MAX ? QS_MAX : QS_MIN), "C06: the objective sense asked for is stored (minimise unless QS_MAX)");
		mpq_QSfree_prob(p);
	}
	ASSERT(qsv_gmp_live == live0, "C18: every number of the problem is cleared, after a successful creation and free as well as after a creation that failed part-way");
	COVER_MUST(p == 0, "creation_failed");
	REACH_END();
}
QSV_MAIN(harness)
