/* C17 "pricing-norm arrays tied to basis dimension" / C18: the REAL grab_basis (static, qsopt.c; with the REAL
 * ILLlp_basis_init / ILLlp_basis_free of lpdata.c) -- the step that stores the solver's basis in the problem after
 * every solve -- for a problem of 1 column and 2 rows whose stored basis is absent, of the same shape, or of ANOTHER
 * shape (left from before rows / columns were added or deleted), with or without norm arrays.  ILLlib_getbasis and
 * ILLlib_getrownorms are stubs with arbitrary results (ILLlib_getbasis is decided in lib/getbasis).
 *   success: the stored basis has the problem's dimensions, status arrays of exactly that length, no column norms, and row
 *            norms either absent or of length nrows (only for dual steepest-edge pricing); the old arrays are released
 *   failure: no basis is left in the problem
 *   in both cases nothing is leaked (GMP model TOKENS, memory-leak check). */
#include <string.h>
#include "qsv.h"
#include "qs_config.h"
#include "logging-private.h"
#include "eg_macros.h"
#include "eg_lpnum.h"
#include "qsopt_mpq.h"
#include "lpdata_mpq.h"
extern int qsv_gmp_live;
int __CPROVER_file_local_qsopt_mpq_c_grab_basis(mpq_QSdata *p);
static int gb_rv, norms_rv;
int mpq_ILLlib_getbasis(mpq_lpinfo *lp, char *cstat, char *rstat) { gb_rv = nondet_bool(); if (!gb_rv) { cstat[0] = '1'; rstat[0] = '0'; rstat[1] = '1'; } return gb_rv; }
int mpq_ILLlib_getrownorms(mpq_lpinfo *lp, mpq_price_info *pinf, mpq_t *rownorms) { norms_rv = nondet_bool(); if (!norms_rv) { mpq_set_si(rownorms[0], 1, 1UL); mpq_set_si(rownorms[1], 1, 1UL); } return norms_rv; }
void harness(void)
{
	mpq_QSdata *p = qsv_alloc(sizeof *p);
	int rv, live0, shape = nondet_int(); IN_BOOL(old_rn); IN_BOOL(old_cn); IN_INT(dprice);
	qsv_init_globals();
	ASSUME(0 <= shape && shape <= 2);
	live0 = qsv_gmp_live;
	p->qslp = qsv_alloc(sizeof *p->qslp); p->lp = qsv_alloc(sizeof *p->lp); p->pricing = qsv_alloc(sizeof *p->pricing);
	p->qslp->nstruct = 1; p->qslp->nrows = 2; p->pricing->dII_price = dprice; p->basis = 0;
	if (shape) {
		int os = shape == 1 ? 1 : 2, orr = shape == 1 ? 2 : 1;	/* same shape, or the transposed one */
		p->basis = qsv_alloc(sizeof *p->basis); mpq_ILLlp_basis_init(p->basis);
		p->basis->nstruct = os; p->basis->nrows = orr; p->basis->cstat = qsv_alloc((size_t) os); p->basis->rstat = qsv_alloc((size_t) orr);
		if (old_rn) p->basis->rownorms = shape == 1 ? mpq_EGlpNumAllocArray(2) : mpq_EGlpNumAllocArray(1);
		if (old_cn) p->basis->colnorms = shape == 1 ? mpq_EGlpNumAllocArray(1) : mpq_EGlpNumAllocArray(2);
	}
	rv = __CPROVER_file_local_qsopt_mpq_c_grab_basis(p);
	if (rv == 0) {
		ASSERT(p->basis != 0 && p->basis->nstruct == 1 && p->basis->nrows == 2 && p->basis->cstat != 0 && p->basis->rstat != 0 && p->basis->cstat[0] == '1' && p->basis->rstat[1] == '1',
			"C12/C17: after a successful grab the stored basis has the problem's dimensions and holds the solver's statuses");
		ASSERT(p->basis->colnorms == 0 && (p->basis->rownorms == 0 || (dprice == QS_PRICE_DSTEEP && norms_rv == 0)), "C17: stale norm arrays do not survive; row norms are kept only for dual steepest-edge pricing and only if the solver delivered them");
		mpq_ILLlp_basis_free(p->basis); free(p->basis);
	} else ASSERT(p->basis == 0 && gb_rv != 0, "C07/C18: a failed grab leaves no basis in the problem");
	free(p->qslp); free(p->lp); free(p->pricing); free(p);
	ASSERT(qsv_gmp_live == live0, "C18: old and new norm arrays are released completely");
	COVER_MUST(rv == 0 && shape == 2 && old_rn, "reshaped_with_old_norms");
	REACH_END();
}
QSV_MAIN(harness)
