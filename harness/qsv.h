/* common part of every dual-mode harness (DESIGN.md 2.5)
 *   CBMC mode   (-DQSV_CBMC): inputs are nondeterministic, contracts are enforced by goto-instrument
 *   native mode (replay)    : inputs are read by NAME from the replay file given as argv[1],
 *                             ASSUME -> exit 77, ASSERT -> report + exit 1 at the end
 */
#ifndef QSV_H
#define QSV_H
#include "config.h"
#include <stdlib.h>
#include <string.h>
#include <stdio.h>
#include <stdbool.h>
#include <gmp.h>
#include "qsv_nondet.h"

#define QSV_CAP 30000            /* cap on symbolic array sizes (keeps object-size arithmetic in range) */
#ifndef QSV_INF
#define QSV_INF (1 << 28)        /* payload standing for ILL_MAXDOUBLE in the GMP model */
#endif

#ifdef QSV_CBMC
/* named inputs use their own nondet functions so that the anonymous nondet_*() sequence of a
 * counterexample (popped in order by the native replay) does not contain them */
int nondet_in_int(void); char nondet_in_char(void); _Bool nondet_in_bool(void);
#define IN_INT(n)   int n = nondet_in_int()
#define IN_CHAR(n)  char n = nondet_in_char()
#define IN_BOOL(n)  int n = nondet_in_bool()
#define ASSUME(c)   __CPROVER_assume(c)
#define ASSERT(c, msg) __CPROVER_assert(c, msg)
#define REACH_END() __CPROVER_assert(0, "reach_end")
#define COVER_MUST(c, msg) __CPROVER_assert(!(c), "reach_" msg)
#define QSV_MAIN(h) 
#else
#define __CPROVER_requires(...)
#define __CPROVER_ensures(...)
#define __CPROVER_assigns(...)
#define __CPROVER_frees(...)
extern int qsv_fail;
#define IN_INT(n)   int n = (int) qsv_in(#n)
#define IN_CHAR(n)  char n = (char) qsv_in(#n)
#define IN_BOOL(n)  int n = qsv_in(#n) != 0
#define ASSUME(c)   do { if (!(c)) { printf("REPLAY: input does not satisfy precondition: %s\n", #c); exit(77); } } while (0)
#define ASSERT(c, msg) do { if (!(c)) { printf("REPLAY: POSTCONDITION VIOLATED: %s\n", msg); qsv_fail = 1; } } while (0)
#define REACH_END() do { printf("REPLAY: reached end, %s\n", qsv_fail ? "violation reproduced" : "no violation observed"); } while (0)
#define COVER_MUST(c, msg)
#define QSV_MAIN(h) int main(int argc, char **argv) { qsv_load(argc > 1 ? argv[1] : 0); h(); return qsv_fail ? 1 : 0; }
void qsv_load(const char *file);
#endif

/* an EGlpNum array with its size header, as __EGlpNumAllocArray produces it (NULL for n == 0) */
static inline mpq_t *qsv_numarray(size_t n)
{
	size_t *h;
	if (n == 0) return 0;
#ifdef QSV_CBMC
	h = malloc(sizeof(mpq_t) * n + sizeof(size_t));
	__CPROVER_assume(h != 0);
#else
	h = calloc(1, sizeof(mpq_t) * n + sizeof(size_t));
#endif
	h[0] = n;
	return (mpq_t *) (h + 1);
}
static inline void *qsv_alloc(size_t bytes)
{
#ifdef QSV_CBMC
	void *p = malloc(bytes);
	__CPROVER_assume(p != 0);
	return p;
#else
	return calloc(1, bytes ? bytes : 1);
#endif
}
#define NUMV(q) ((q)->_mp_num._mp_size)
#define DENV(q) ((q)->_mp_den._mp_size)
static inline void qsv_setnum(mpq_t q, int v) { NUMV(q) = v; DENV(q) = 1; q->_mp_num._mp_alloc = 1; q->_mp_num._mp_d = 0; }

void qsv_init_globals(void);
extern int g_log_calls, g_direct_writes, g_sinfo_freed;
#endif
