#!/usr/bin/env python3
"""regenerates MANIFEST.json from the table below (kept in one place so it is always valid)"""
import json, os, sys
sys.path.insert(0, os.path.dirname(os.path.abspath(__file__)))
from vlib.manifest_data import CHECKS, NOT_APPLICABLE, HOOKS
m = {
    "version": 1,
    "setup_cmd": "true",
    "hooks": HOOKS,
    "engines": [{"name": "cbmc-contracts", "path": "/verif/check",
                 "serves_properties": [c["property_id"] for c in CHECKS],
                 "kind_free_text": "CBMC 6.11 code contracts (goto-cc, goto-instrument --dfcc enforce/replace, loop contracts, cbmc) on the real instantiated sources of /repo, contracts kept out of tree in /verif/contracts"}],
    "checks": CHECKS,
    "not_applicable": NOT_APPLICABLE,
    "notes": "see DESIGN.md; every check is ./check <id> --tier quick|thorough; exit 2 = tool trouble (undecided), never a violation",
}
json.dump(m, open(os.path.join(os.path.dirname(os.path.abspath(__file__)), "MANIFEST.json"), "w"), indent=1)
print("MANIFEST.json written: %d checks, %d not_applicable" % (len(CHECKS), len(NOT_APPLICABLE)))
