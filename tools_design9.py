#!/usr/bin/env python3
"""refreshes the generated parts of DESIGN.md section 9 (group table 9.2, fixed-defect list 9.3)"""
import sys, json, re
sys.path.insert(0, '/verif')
from vlib.groups import all_groups
rows = ["| `%s` | %s | %s | %s | %s |" % (g.name, g.kind, g.tier, ",".join(g.props), ", ".join(g.functions)[:110]) for g in all_groups()]
table = "| group | kind | tier | properties | functions under contract |\n|---|---|---|---|---|\n" + "\n".join(rows)
fixed = "\n".join("* `%s`" % f for f in json.load(open('/verif/known_findings.json'))['fixed'])
s = open('/verif/DESIGN.md').read()
s = re.sub(r"(### 9\.2 Obligation groups[^\n]*\n\n)\| group \|.*?\n\n(Not built from)", lambda m: m.group(1) + table + "\n\n" + m.group(2), s, flags=re.S)
s = re.sub(r"(repair; with the repair the obligation discharges and the 20 existing tests still pass\.\n\n).*?\n\n(Defects seen but)", lambda m: m.group(1) + fixed + "\n\n" + m.group(2), s, flags=re.S)
nfixed = len(fixed.splitlines())
s = re.sub(r"\*\*Genuine defects\*\*: \d+ `fixed:` lines", "**Genuine defects**: %d `fixed:` lines" % nfixed, s)
# 9.6 catch matrix from the last seedtest run (seeded/last_run.tsv) and the seeds' meta.json
import os, glob, csv
runs = {}
if os.path.exists('/verif/seeded/last_run.tsv'):
    for row in csv.reader(open('/verif/seeded/last_run.tsv'), delimiter='\t'):
        if len(row) >= 6:
            runs.setdefault(row[0], []).append(row[1:])
lines = ["| seed | property | what was changed | result of `./check` on the changed tree | first failed obligation |", "|---|---|---|---|---|"]
caught = missed = undec = 0
for m in sorted(glob.glob('/verif/seeded/*/meta.json')):
    sid = os.path.basename(os.path.dirname(m)); md = json.load(open(m))
    rs = runs.get(sid, [])
    if not rs:
        res, ob = "not run", ""
    else:
        hit = [r for r in rs if r[2] == "1"]
        und = [r for r in rs if r[2] == "2"]
        if hit:
            r = hit[0]; res = "**caught** by `./check %s` (%s)%s" % (r[0].replace("|", "\\|"), r[1], "" if r[4] == "0" else ", no-failing-input-found"); ob = "`%s`" % r[3]; caught += 1
        elif und and len(und) == len(rs):
            res = "undecided (exit 2: tool limit on the changed tree)"; ob = ""; undec += 1
        else:
            res = "not caught (exit 0) by " + ", ".join("`./check %s`" % r[0] for r in rs if r[2] == "0") + ("; the full run of the property was undecided (a solver was killed under memory pressure while several seeds were tested in parallel)" if und else ""); ob = ""; missed += 1
    lines.append("| %s | %s | %s | %s | %s |" % (sid, md["property"], md["what"].replace("|", "/")[:170], res, ob))
matrix = "\n".join(lines) + "\n\nTotals of this run: %d caught, %d not caught, %d undecided, of %d seeded changes.\n" % (caught, missed, undec, caught + missed + undec)
if "### 9.6 Catch matrix" in s:
    s = re.sub(r"(### 9\.6 Catch matrix[^\n]*\n\n).*?(\n<!-- end 9\.6 -->)", lambda mm: mm.group(1) + matrix + mm.group(2), s, flags=re.S)
open('/verif/DESIGN.md', 'w').write(s)
print("DESIGN.md section 9 refreshed: %d groups, %d fixed" % (len(rows), len(fixed.splitlines())))
