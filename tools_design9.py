#!/usr/bin/env python3
"""refreshes the generated parts of DESIGN.md section 9 (group table 9.2, fixed-defect list 9.3)"""
import sys, json, re
sys.path.insert(0, '/verif')
from vlib.groups import all_groups
rows = ["| `%s` | %s | %s | %s | %s |" % (g.name, g.kind, g.tier, ",".join(g.props), ", ".join(g.functions)[:110]) for g in all_groups()]
table = "| group | kind | tier | properties | functions under contract |\n|---|---|---|---|---|\n" + "\n".join(rows)
fixed = "\n".join("* `%s`" % f for f in json.load(open('/verif/known_findings.json'))['fixed'])
s = open('/verif/DESIGN.md').read()
s = re.sub(r"(### 9\.2 Obligation groups[^\n]*\n\n)\| group \|.*?\n\n(Not built from)", lambda m: m.group(1) + table + "\n\n" + m.group(2), s, flags=re.S)
s = re.sub(r"(repair; with the repair the obligation discharges and the 20 existing tests still pass\.\n\n).*?\n\n(Defects seen but)", lambda m: m.group(1) + fixed + "\n\n" + m.group(2), s, flags=re.S)
open('/verif/DESIGN.md', 'w').write(s)
print("DESIGN.md section 9 refreshed: %d groups, %d fixed" % (len(rows), len(fixed.splitlines())))
