/* Out-of-tree contracts for qsopt_ex/lib.c (mpq instance).  Each contract_<fn> has the signature
 * of mpq_<fn> and is attached with  --enforce-contract mpq_<fn>/contract_<fn>  (or
 * --replace-call-with-contract).  Postconditions come from the property statements
 * (properties.jsonl C06 / C07); requires and frames come from the code and its call sites.
 *
 * Conventions: qsv_g.gc / qsv_g.gr are ghost (arbitrary) column / row indices; a postcondition
 * stated at a ghost index holds for every index.  Numbers are compared through the GMP model's
 * payload (NUMEQ).  "sinfo" (presolve scratch copy) and "rA" (row-major scratch copy) are internal
 * caches that are not observable through the API; edits drop them.
 */
#ifndef QSV_LIB_CONTRACTS_H
#define QSV_LIB_CONTRACTS_H
#include "wf.h"

#define VALID_COL(lp, j) (0 <= (j) && (j) < (lp)->O->nstruct)
#define VALID_ROW(lp, r) (0 <= (r) && (r) < (lp)->O->nrows)
#define VALID_LU(c) ((c) == 'L' || (c) == 'U' || (c) == 'B')
#define COLOF(lp, j) ((lp)->O->structmap[j])
#define NUMEQ(a, b) (NUMV(a) == NUMV(b) && DENV(a) == DENV(b))
#define LP_OK(lp) ((lp) != 0 && WF_LPDATA_SIZES((lp)->O))
#define GC_OK(lp) (0 <= qsv_g.gc && qsv_g.gc < (lp)->O->nstruct && WF_STRUCT_AT((lp)->O, qsv_g.gc))
#define GR_OK(lp) (0 <= qsv_g.gr && qsv_g.gr < (lp)->O->nrows)

/* ------------------------------------------------------------------ bounds */
/* C07: bad index or bad selector => non-zero, nothing assigned (conditional assigns = frame).
 * C06: 'L' sets lower only, 'U' upper only, 'B' both, to exactly bnd. */
int contract_ILLlib_chgbnd(mpq_lpinfo *lp, int indx, int lu, const mpq_t bnd)
__CPROVER_requires(LP_OK(lp))
__CPROVER_requires(VALID_COL(lp, indx) ==> WF_STRUCT_AT(lp->O, indx))
__CPROVER_assigns(VALID_COL(lp, indx): lp->O->sinfo, g_sinfo_freed)
__CPROVER_assigns(VALID_COL(lp, indx) && (lu == 'L' || lu == 'B'): lp->O->lower[COLOF(lp, indx)])
__CPROVER_assigns(VALID_COL(lp, indx) && (lu == 'U' || lu == 'B'): lp->O->upper[COLOF(lp, indx)])
__CPROVER_frees(VALID_COL(lp, indx): lp->O->sinfo)
__CPROVER_ensures(!VALID_COL(lp, indx) ==> __CPROVER_return_value != 0)
__CPROVER_ensures(!VALID_LU(lu) ==> __CPROVER_return_value != 0)
__CPROVER_ensures((VALID_COL(lp, indx) && VALID_LU(lu)) ==> __CPROVER_return_value == 0)
__CPROVER_ensures((__CPROVER_return_value == 0 && (lu == 'L' || lu == 'B')) ==> NUMEQ(lp->O->lower[COLOF(lp, indx)], bnd))
__CPROVER_ensures((__CPROVER_return_value == 0 && (lu == 'U' || lu == 'B')) ==> NUMEQ(lp->O->upper[COLOF(lp, indx)], bnd))
;

/* query: only 'L' and 'U' are meaningful selectors for a single value */
int contract_ILLlib_getbnd(mpq_lpinfo *lp, int indx, int lu, mpq_t *bnd)
__CPROVER_requires(LP_OK(lp) && bnd != 0)
__CPROVER_requires(VALID_COL(lp, indx) ==> WF_STRUCT_AT(lp->O, indx))
__CPROVER_assigns(VALID_COL(lp, indx) && (lu == 'L' || lu == 'U'): *bnd)
__CPROVER_ensures(!VALID_COL(lp, indx) ==> __CPROVER_return_value != 0)
__CPROVER_ensures((lu != 'L' && lu != 'U') ==> __CPROVER_return_value != 0)
__CPROVER_ensures((VALID_COL(lp, indx) && lu == 'L') ==> (__CPROVER_return_value == 0 && NUMEQ(*bnd, lp->O->lower[COLOF(lp, indx)])))
__CPROVER_ensures((VALID_COL(lp, indx) && lu == 'U') ==> (__CPROVER_return_value == 0 && NUMEQ(*bnd, lp->O->upper[COLOF(lp, indx)])))
;

/* ------------------------------------------------------------------ objective / rhs */
int contract_ILLlib_chgobj(mpq_lpinfo *lp, int indx, mpq_t coef)
__CPROVER_requires(LP_OK(lp))
__CPROVER_requires(VALID_COL(lp, indx) ==> WF_STRUCT_AT(lp->O, indx))
__CPROVER_assigns(VALID_COL(lp, indx): lp->O->sinfo, g_sinfo_freed, lp->O->obj[COLOF(lp, indx)])
__CPROVER_frees(VALID_COL(lp, indx): lp->O->sinfo)
__CPROVER_ensures(VALID_COL(lp, indx) <==> __CPROVER_return_value == 0)
__CPROVER_ensures(__CPROVER_return_value == 0 ==> NUMEQ(lp->O->obj[COLOF(lp, indx)], coef))
;

int contract_ILLlib_chgrhs(mpq_lpinfo *lp, int indx, mpq_t coef)
__CPROVER_requires(LP_OK(lp))
__CPROVER_assigns(VALID_ROW(lp, indx): lp->O->sinfo, g_sinfo_freed, lp->O->rhs[indx])
__CPROVER_frees(VALID_ROW(lp, indx): lp->O->sinfo)
__CPROVER_ensures(VALID_ROW(lp, indx) <==> __CPROVER_return_value == 0)
__CPROVER_ensures(__CPROVER_return_value == 0 ==> NUMEQ(lp->O->rhs[indx], coef))
;

/* all rows: rhs[gr] is the stored right-hand side of row gr; frame = the output array */
int contract_ILLlib_getrhs(mpq_lpinfo *lp, mpq_t *rhs)
__CPROVER_requires(LP_OK(lp) && GR_OK(lp))
__CPROVER_assigns(__CPROVER_object_whole(rhs))
__CPROVER_ensures(__CPROVER_return_value == 0 && NUMEQ(rhs[qsv_g.gr], lp->O->rhs[qsv_g.gr]))
;

int contract_ILLlib_getsenses(mpq_lpinfo *lp, char *senses)
__CPROVER_requires(LP_OK(lp) && GR_OK(lp))
__CPROVER_assigns(__CPROVER_object_whole(senses))
__CPROVER_ensures(__CPROVER_return_value == 0 && senses[qsv_g.gr] == lp->O->sense[qsv_g.gr])
;

int contract_ILLlib_getintflags(mpq_lpinfo *lp, int *intflags)
__CPROVER_requires(LP_OK(lp) && 0 <= qsv_g.gc && qsv_g.gc < lp->O->nstruct)
__CPROVER_assigns(__CPROVER_object_whole(intflags))
__CPROVER_ensures(__CPROVER_return_value == 0)
__CPROVER_ensures(intflags[qsv_g.gc] == ((lp->O->intmarker != 0 && lp->O->intmarker[qsv_g.gc] != 0) ? 1 : 0))
;

/* C06 query through the column map (all columns; ghost column gc) */
int contract_ILLlib_getobj(mpq_lpinfo *lp, mpq_t *obj)
__CPROVER_requires(LP_OK(lp) && GC_OK(lp))
__CPROVER_assigns(__CPROVER_object_whole(obj))
__CPROVER_ensures(__CPROVER_return_value == 0)
__CPROVER_ensures(NUMEQ(obj[qsv_g.gc], lp->O->obj[COLOF(lp, qsv_g.gc)]))
;

int contract_ILLlib_getbnds(mpq_lpinfo *lp, mpq_t *lower, mpq_t *upper)
__CPROVER_requires(LP_OK(lp) && GC_OK(lp))
__CPROVER_assigns(lower != 0: __CPROVER_object_whole(lower))
__CPROVER_assigns(upper != 0: __CPROVER_object_whole(upper))
__CPROVER_ensures(__CPROVER_return_value == 0)
__CPROVER_ensures(lower != 0 ==> NUMEQ(lower[qsv_g.gc], lp->O->lower[COLOF(lp, qsv_g.gc)]))
__CPROVER_ensures(upper != 0 ==> NUMEQ(upper[qsv_g.gc], lp->O->upper[COLOF(lp, qsv_g.gc)]))
;

/* list queries: position gk of the list (ghost), 0 <= gk < num.
 * C07: a list with an out-of-range entry is rejected (non-zero). */
int contract_ILLlib_getobj_list(mpq_lpinfo *lp, int num, int *collist, mpq_t *obj)
__CPROVER_requires(LP_OK(lp) && 0 <= num && num <= QSV_CAP && 0 <= qsv_g.gk && qsv_g.gk < num)
__CPROVER_assigns(__CPROVER_object_whole(obj))
__CPROVER_ensures(!VALID_COL(lp, collist[qsv_g.gk]) ==> __CPROVER_return_value != 0)
__CPROVER_ensures(__CPROVER_return_value == 0 ==> NUMEQ(obj[qsv_g.gk], lp->O->obj[COLOF(lp, collist[qsv_g.gk])]))
;

int contract_ILLlib_getbnds_list(mpq_lpinfo *lp, int num, int *collist, mpq_t *lower, mpq_t *upper)
__CPROVER_requires(LP_OK(lp) && 0 <= num && num <= QSV_CAP && 0 <= qsv_g.gk && qsv_g.gk < num)
__CPROVER_assigns(lower != 0: __CPROVER_object_whole(lower))
__CPROVER_assigns(upper != 0: __CPROVER_object_whole(upper))
__CPROVER_ensures(!VALID_COL(lp, collist[qsv_g.gk]) ==> __CPROVER_return_value != 0)
__CPROVER_ensures((__CPROVER_return_value == 0 && lower != 0) ==> NUMEQ(lower[qsv_g.gk], lp->O->lower[COLOF(lp, collist[qsv_g.gk])]))
__CPROVER_ensures((__CPROVER_return_value == 0 && upper != 0) ==> NUMEQ(upper[qsv_g.gk], lp->O->upper[COLOF(lp, collist[qsv_g.gk])]))
;

/* ------------------------------------------------------------------ cached solution (C01 / C05)
 * with a cache whose dimensions are the problem's (wf_cache: every producer keeps them equal), the accessor hands out
 * exactly the cached vectors -- the ones QSexact_optimal_test certified -- entry by entry (ghost position gk), and the
 * cached value; frame = the output arrays */
int contract_ILLlib_solution(mpq_lpinfo *lp, mpq_ILLlp_cache *C, mpq_t *val, mpq_t *x, mpq_t *pi, mpq_t *slack, mpq_t *rc)
__CPROVER_requires(LP_OK(lp) && C != 0 && C->nrows == lp->O->nrows && C->nstruct == lp->O->nstruct && 0 <= qsv_g.gk)
__CPROVER_assigns(val != 0: *val)
__CPROVER_assigns(x != 0: __CPROVER_object_whole(x))
__CPROVER_assigns(pi != 0: __CPROVER_object_whole(pi))
__CPROVER_assigns(slack != 0: __CPROVER_object_whole(slack))
__CPROVER_assigns(rc != 0: __CPROVER_object_whole(rc))
__CPROVER_ensures(__CPROVER_return_value == 0)
__CPROVER_ensures(val != 0 ==> NUMEQ(*val, C->val))
__CPROVER_ensures((x != 0 && qsv_g.gk < lp->O->nstruct) ==> NUMEQ(x[qsv_g.gk], C->x[qsv_g.gk]))
__CPROVER_ensures((rc != 0 && qsv_g.gk < lp->O->nstruct) ==> NUMEQ(rc[qsv_g.gk], C->rc[qsv_g.gk]))
__CPROVER_ensures((pi != 0 && qsv_g.gk < lp->O->nrows) ==> NUMEQ(pi[qsv_g.gk], C->pi[qsv_g.gk]))
__CPROVER_ensures((slack != 0 && qsv_g.gk < lp->O->nrows) ==> NUMEQ(slack[qsv_g.gk], C->slack[qsv_g.gk]))
;

/* C12/C14 "returned bases are exact": ILLlib_getbasis translates the solver's internal status of EVERY structural
 * column (through the column map; ghost column gc) and of EVERY row's logical column (through the row map; ghost row gr)
 * into the documented status codes: columns basic/lower/upper/free; rows basic/lower/upper, where a non-ranged row's
 * logical at upper is reported as lower (documented).  An unsolved / modified LP (basisid == -1) is rejected. */
#define CSTAT_OF(v) ((v) == STAT_BASIC ? QS_COL_BSTAT_BASIC : (v) == STAT_LOWER ? QS_COL_BSTAT_LOWER : (v) == STAT_UPPER ? QS_COL_BSTAT_UPPER : QS_COL_BSTAT_FREE)
#define RSTAT_OF(v, ranged) ((v) == STAT_BASIC ? QS_ROW_BSTAT_BASIC : ((v) == STAT_UPPER && (ranged)) ? QS_ROW_BSTAT_UPPER : QS_ROW_BSTAT_LOWER)
#define ROW_RANGED(lp, r) ((lp)->O->rangeval != 0 && NUMV((lp)->O->rangeval[r]) != 0)
int contract_ILLlib_getbasis(mpq_lpinfo *lp, char *cstat, char *rstat)
__CPROVER_requires(LP_OK(lp) && GC_OK(lp) && GR_OK(lp) && 0 <= lp->O->rowmap[qsv_g.gr] && lp->O->rowmap[qsv_g.gr] < lp->O->ncols)
__CPROVER_assigns(__CPROVER_object_whole(cstat), __CPROVER_object_whole(rstat))
__CPROVER_ensures((lp->basisid == -1) ==> __CPROVER_return_value != 0)
__CPROVER_ensures(__CPROVER_return_value == 0 ==> (lp->vstat[COLOF(lp, qsv_g.gc)] >= STAT_BASIC && lp->vstat[COLOF(lp, qsv_g.gc)] <= STAT_ZERO && cstat[qsv_g.gc] == CSTAT_OF(lp->vstat[COLOF(lp, qsv_g.gc)])))
__CPROVER_ensures(__CPROVER_return_value == 0 ==> rstat[qsv_g.gr] == RSTAT_OF(lp->vstat[lp->O->rowmap[qsv_g.gr]], ROW_RANGED(lp, qsv_g.gr)))
__CPROVER_ensures(__CPROVER_return_value == 0 ==> (lp->vstat[lp->O->rowmap[qsv_g.gr]] == STAT_BASIC || lp->vstat[lp->O->rowmap[qsv_g.gr]] == STAT_LOWER || lp->vstat[lp->O->rowmap[qsv_g.gr]] == STAT_UPPER))
;
#endif
