/* Out-of-tree contracts for qsopt_ex/lib.c (mpq instance).  Each contract_<fn> has the signature
 * of mpq_<fn> and is attached with  --enforce-contract mpq_<fn>/contract_<fn>  (or
 * --replace-call-with-contract).  Postconditions come from the property statements
 * (properties.jsonl C06 / C07); requires and frames come from the code and its call sites. */
#ifndef QSV_LIB_CONTRACTS_H
#define QSV_LIB_CONTRACTS_H
#include "wf.h"

#define VALID_COL(lp, j) (0 <= (j) && (j) < (lp)->O->nstruct)
#define VALID_ROW(lp, r) (0 <= (r) && (r) < (lp)->O->nrows)
#define VALID_LU(c) ((c) == 'L' || (c) == 'U' || (c) == 'B')
#define COLOF(lp, j) ((lp)->O->structmap[j])

/* C07: bad index or bad selector => non-zero, nothing assigned (frame: conditional assigns).
 * C06: 'L' sets lower only, 'U' upper only, 'B' both, to exactly bnd.
 * sinfo (the presolve scratch copy, not observable through the API) is dropped on a valid index. */
int contract_ILLlib_chgbnd(mpq_lpinfo *lp, int indx, int lu, const mpq_t bnd)
__CPROVER_requires(lp != 0 && WF_LPDATA_SIZES(lp->O))
__CPROVER_requires(VALID_COL(lp, indx) ==> WF_STRUCT_AT(lp->O, indx))
__CPROVER_assigns(VALID_COL(lp, indx): lp->O->sinfo, g_sinfo_freed)
__CPROVER_assigns(VALID_COL(lp, indx) && (lu == 'L' || lu == 'B'): lp->O->lower[COLOF(lp, indx)])
__CPROVER_assigns(VALID_COL(lp, indx) && (lu == 'U' || lu == 'B'): lp->O->upper[COLOF(lp, indx)])
__CPROVER_frees(VALID_COL(lp, indx): lp->O->sinfo)
__CPROVER_ensures(!VALID_COL(lp, indx) ==> __CPROVER_return_value != 0)
__CPROVER_ensures(!VALID_LU(lu) ==> __CPROVER_return_value != 0)
__CPROVER_ensures((VALID_COL(lp, indx) && VALID_LU(lu)) ==> __CPROVER_return_value == 0)
__CPROVER_ensures((__CPROVER_return_value == 0 && (lu == 'L' || lu == 'B')) ==>
	(NUMV(lp->O->lower[COLOF(lp, indx)]) == NUMV(bnd) && DENV(lp->O->lower[COLOF(lp, indx)]) == DENV(bnd)))
__CPROVER_ensures((__CPROVER_return_value == 0 && (lu == 'U' || lu == 'B')) ==>
	(NUMV(lp->O->upper[COLOF(lp, indx)]) == NUMV(bnd) && DENV(lp->O->upper[COLOF(lp, indx)]) == DENV(bnd)))
;
#endif
