/* Well-formedness of the LP data structures, derived from the code and its call sites
 * (DESIGN.md 2.4), and the harness-side builder that produces an arbitrary well-formed state.
 *
 * Universal facts are instantiated at nondeterministic GHOST indices (qsv_g.*): a proof for an
 * arbitrary index is a proof for all indices, and no quantifier reaches the solver.
 */
#ifndef QSV_WF_H
#define QSV_WF_H
#include "qsv.h"
#include "qs_config.h"
#include "eg_lpnum.h"
#include "lpdata_mpq.h"
#include "lpdefs_mpq.h"
#include "qstruct_mpq.h"
#include "lib_mpq.h"

/* ghost indices shared between builder and postconditions */
struct qsv_ghost {
	int gc;		/* ghost structural column index, 0 <= gc < nstruct (if nstruct > 0) */
	int gr;		/* ghost row index, 0 <= gr < nrows (if nrows > 0) */
	int gk;		/* ghost entry position inside column structmap[gc] */
};
extern struct qsv_ghost qsv_g;

/* sizes of a freshly built state, kept for postconditions (snapshot of the pre-state) */
struct qsv_sizes { int nrows, nstruct, ncols, rowsize, colsize, structsize, matsize, matfree, nzcount; };

#define WF_SENSE(c) ((c) == 'L' || (c) == 'G' || (c) == 'E' || (c) == 'R')

/* ---- predicate form (used in contract requires/ensures; no loops, ghost indices only) ---- */
#define WF_LPDATA_SIZES(O) ( \
	(O) != 0 && 0 <= (O)->nrows && (O)->nrows <= (O)->rowsize && (O)->rowsize <= QSV_CAP && \
	0 <= (O)->nstruct && (O)->nstruct <= (O)->structsize && (O)->structsize <= QSV_CAP && \
	(O)->ncols == (O)->nrows + (O)->nstruct && (O)->ncols <= (O)->colsize && (O)->colsize <= 2 * QSV_CAP && \
	(O)->A.matcols == (O)->ncols && (O)->A.matrows == (O)->nrows && (O)->A.matcolsize == (O)->colsize && \
	0 <= (O)->A.matfree && (O)->A.matfree <= (O)->A.matsize && (O)->A.matsize <= QSV_CAP)

#define WF_STRUCT_AT(O, j) (0 <= (O)->structmap[j] && (O)->structmap[j] < (O)->ncols)
#define WF_ROW_AT(O, r) (0 <= (O)->rowmap[r] && (O)->rowmap[r] < (O)->ncols && WF_SENSE((O)->sense[r]))

/* ---- builder: an arbitrary state satisfying the predicates above ----
 * Only the arrays named in `mask` are allocated (each with symbolic length); all other array
 * pointers are NULL, so a function that touches an array its group did not declare fails a
 * pointer check instead of silently reading unconstrained memory.  Arrays are allocated WITHOUT
 * the EGlpNum size header (a typed symbolic-length object is cheap for CBMC, a byte-addressed one
 * is not); groups that reach __EGlpNumArraySize / FreeArray use qsv_numarray with constant sizes. */
#define QF_STRUCTMAP 1
#define QF_BOUNDS    2
#define QF_OBJ       4
#define QF_RHS       8
#define QF_SENSE     16
#define QF_RANGE     32
#define QF_ROWMAP    64
#define QF_MATRIX    128
#define QF_INTMARK   256
#define QF_MATVAL    512
static inline mpq_t *qsv_nums(int n) { return (mpq_t *) qsv_alloc(sizeof(mpq_t) * (size_t) n); }
static inline mpq_ILLlpdata *qsv_mk_lpdata(struct qsv_sizes *sz, int mask)
{
	mpq_ILLlpdata *O = qsv_alloc(sizeof *O);
	IN_INT(nrows); IN_INT(nstruct); IN_INT(rowsize); IN_INT(colsize); IN_INT(structsize);
	ASSUME(0 <= nrows && nrows <= rowsize && rowsize <= QSV_CAP);
	ASSUME(0 <= nstruct && nstruct <= structsize && structsize <= QSV_CAP);
	ASSUME(nrows + nstruct <= colsize && colsize <= 2 * QSV_CAP);
	O->nrows = nrows; O->nstruct = nstruct; O->ncols = nrows + nstruct;
	O->rowsize = rowsize; O->colsize = colsize; O->structsize = structsize;
	IN_INT(nzcount); O->nzcount = nzcount; ASSUME(0 <= nzcount && nzcount <= QSV_CAP);
	IN_INT(objsense); O->objsense = objsense; ASSUME(objsense == 1 || objsense == -1);
	O->sense = (mask & QF_SENSE) ? qsv_alloc(rowsize) : 0;
	O->rhs = (mask & QF_RHS) ? qsv_nums(rowsize) : 0;
	O->rangeval = (mask & QF_RANGE) ? qsv_nums(rowsize) : 0;
	O->obj = (mask & QF_OBJ) ? qsv_nums(colsize) : 0;
	O->lower = (mask & QF_BOUNDS) ? qsv_nums(colsize) : 0;
	O->upper = (mask & QF_BOUNDS) ? qsv_nums(colsize) : 0;
	O->structmap = (mask & QF_STRUCTMAP) ? qsv_alloc(sizeof(int) * structsize) : 0;
	O->rowmap = (mask & QF_ROWMAP) ? qsv_alloc(sizeof(int) * rowsize) : 0;
	O->intmarker = (mask & QF_INTMARK) ? qsv_alloc(structsize) : 0;
	{ IN_BOOL(has_sinfo); O->sinfo = has_sinfo ? qsv_alloc(sizeof *O->sinfo) : 0; }
	{ IN_BOOL(has_rA); O->rA = has_rA ? qsv_alloc(sizeof *O->rA) : 0; }
	O->rownames = 0; O->colnames = 0; O->objname = 0; O->probname = 0;
	O->basis = 0; O->presolve = 0;
	O->A.matcols = O->ncols; O->A.matrows = nrows; O->A.matcolsize = colsize;
	O->A.matval = 0; O->A.matind = 0; O->A.matcnt = 0; O->A.matbeg = 0; O->A.matsize = 0; O->A.matfree = 0;
	if (mask & QF_MATRIX) {
		IN_INT(matsize); IN_INT(matfree);
		ASSUME(0 <= matfree && matfree <= matsize && matsize <= QSV_CAP);
		O->A.matsize = matsize; O->A.matfree = matfree;
		O->A.matcnt = qsv_alloc(sizeof(int) * colsize);
		O->A.matbeg = qsv_alloc(sizeof(int) * colsize);
		O->A.matind = qsv_alloc(sizeof(int) * matsize);
		O->A.matval = (mask & QF_MATVAL) ? qsv_nums(matsize) : 0;
	}
	if (sz) {
		sz->nrows = nrows; sz->nstruct = nstruct; sz->ncols = nrows + nstruct; sz->rowsize = rowsize;
		sz->colsize = colsize; sz->structsize = structsize; sz->matsize = O->A.matsize; sz->matfree = O->A.matfree;
		sz->nzcount = O->nzcount;
	}
	return O;
}

/* instantiate the per-index facts at index j / r (call with the index the function will touch,
 * or with a ghost index) */
static inline void qsv_wf_struct_at(mpq_ILLlpdata *O, int j)
{
	if (0 <= j && j < O->nstruct) {
		IN_INT(structmap_j); O->structmap[j] = structmap_j;
		ASSUME(WF_STRUCT_AT(O, j));
	}
}
static inline void qsv_wf_row_at(mpq_ILLlpdata *O, int r)
{
	if (0 <= r && r < O->nrows) {
		IN_INT(rowmap_r); IN_CHAR(sense_r);
		if (O->rowmap) O->rowmap[r] = rowmap_r;
		if (O->sense) O->sense[r] = sense_r;
		ASSUME((!O->rowmap || (0 <= rowmap_r && rowmap_r < O->ncols)) && (!O->sense || WF_SENSE(sense_r)));
	}
}
/* universal well-formedness of an index map.  CBMC's SAT back end only decides quantifiers over a
 * CONSTANT range (it expands them), and the SMT back ends fail on these formulas (DESIGN.md 0), so
 * groups whose loops read through structmap/rowmap at every index cap that map's length at
 * QSV_MAPCAP and are labelled bounded (loops are still closed by inductive invariants). */
#ifndef QSV_MAPCAP
#define QSV_MAPCAP 64
#endif
static inline void qsv_wf_struct_all(mpq_ILLlpdata *O)
{
	ASSUME(O->nstruct <= QSV_MAPCAP);
#ifdef QSV_CBMC
	__CPROVER_assume(__CPROVER_forall { int k; (0 <= k && k < QSV_MAPCAP) ==> (k < O->nstruct ==> WF_STRUCT_AT(O, k)) });
#else
	{ int k; for (k = 0; k < O->nstruct; k++) { O->structmap[k] = k; } }
#endif
}
static inline void qsv_wf_rowmap_all(mpq_ILLlpdata *O)
{
	ASSUME(O->nrows <= QSV_MAPCAP);
#ifdef QSV_CBMC
	__CPROVER_assume(__CPROVER_forall { int k; (0 <= k && k < QSV_MAPCAP) ==> (k < O->nrows ==> (0 <= O->rowmap[k] && O->rowmap[k] < O->ncols)) });
#else
	{ int k; for (k = 0; k < O->nrows; k++) { O->rowmap[k] = O->nstruct + k; } }
#endif
}
static inline mpq_lpinfo *qsv_mk_lpinfo(mpq_ILLlpdata *O)
{
	mpq_lpinfo *lp = qsv_alloc(sizeof *lp);
	lp->O = O;
	return lp;
}
#endif
