/* Out-of-tree contracts for the basis entry points of qsopt_ex/qsopt.c (mpq instance).
 *
 * C14  "writing the problem's own current basis leaves that basis in place for later calls":
 *      QSwrite_basis has an EMPTY frame on everything reachable from p (assigns nothing, frees
 *      nothing that existed before the call) -- with B == NULL as well as with a caller basis.
 * C07  "a size-mismatched or malformed basis returns non-zero ... and leaves the problem, its basis
 *      and any stored solution exactly as observable before the call".
 * C12  basis export/import copy the status vectors entry by entry (ghost index qsv_g.gk).
 */
#ifndef QSV_QSBASIS_CONTRACTS_H
#define QSV_QSBASIS_CONTRACTS_H
#include "qsopt_contracts.h"

extern int g_wb_called, g_wb_rv;
extern void *g_wb_basis;

/* the basis handed to the writer is p's own basis (B == NULL) or a local conversion of B */
int contract_QSwrite_basis(mpq_QSdata *p, QSbasis *B, const char *filename)
__CPROVER_requires(p == 0 || QS_OK(p))
__CPROVER_assigns(g_wb_called, g_wb_rv, g_wb_basis)
__CPROVER_frees()
__CPROVER_ensures(p == 0 ==> RET != 0)
__CPROVER_ensures((p != 0 && B == 0 && p->basis == 0) ==> (RET != 0 && g_wb_called == 0))
__CPROVER_ensures((p != 0 && B == 0 && p->basis != 0) ==> (g_wb_called == 1 && g_wb_basis == p->basis && RET == g_wb_rv))
__CPROVER_ensures(RET == 0 ==> g_wb_called == 1)
;

#endif
