/* Out-of-tree contracts for the public edit wrappers of qsopt_ex/qsopt.c (mpq instance).
 *
 * C05 (invalidation half), from the property statement "between an edit and the next solve every
 * solution accessor either fails or returns a solution that is still exactly optimal":
 *   I1  success                         => p->cache == 0 and p->qstatus == QS_LP_MODIFIED
 *   I2  success of an edit that can change a basis-matrix entry, a row/column count or a logical
 *       column                           => p->factorok == 0  (no later solve reuses the old LU)
 * C07 ("leaves the problem, its basis and any stored solution exactly as observable before"):
 *   I3  failure                         => cache, qstatus, factorok, basis unchanged (frame: the
 *       conditional assigns clauses make every write and every free on a failing path an error)
 *   N   p == NULL                        => non-zero, nothing touched
 *
 * The ILLlib_* callee is a nondeterministic stub in these groups (returns g_lib_rv, records
 * g_lib_called; its own behaviour is decided in the lib/* groups or listed as assumed).
 */
#ifndef QSV_QSOPT_CONTRACTS_H
#define QSV_QSOPT_CONTRACTS_H
#include "wf.h"
#include "qsopt_mpq.h"

extern int g_old_objsense;
extern const mpq_t *g_bound_ptr; extern int g_bound_sense, g_bound_calls;
extern int g_lib_rv, g_lib_called, g_cache_freed, g_basis_freed, g_basis_ok, g_cache_ok, g_factorok_out, g_factorok_in;

#define QS_OK(p) ((p)->qslp != 0 && (p)->lp != 0 && (p)->lp->O == (p)->qslp && ((p)->factorok == 0 || (p)->factorok == 1))
#define OLD(e) __CPROVER_old(e)
#define RET __CPROVER_return_value

/* frame shared by all edit wrappers: what a successful edit may touch in *p */
#define EDIT_FRAME \
	__CPROVER_requires(p == 0 || QS_OK(p)) \
	__CPROVER_assigns(g_lib_rv, g_lib_called, g_cache_freed, g_basis_freed, g_basis_ok, g_cache_ok, g_factorok_out, g_factorok_in, g_sinfo_freed) \
	__CPROVER_assigns(p != 0: p->cache, p->qstatus, p->factorok) \
	__CPROVER_frees(p != 0: p->cache) \
	__CPROVER_ensures(p == 0 ==> RET != 0)
/* I3 on failure (basis included) */
#define EDIT_I3 \
	__CPROVER_ensures((p != 0 && RET != 0) ==> (p->cache == OLD(p->cache) && p->qstatus == OLD(p->qstatus) && p->factorok == OLD(p->factorok) && p->basis == OLD(p->basis) && g_cache_freed == 0 && g_basis_freed == 0))
#define EDIT_I1 \
	__CPROVER_ensures((p != 0 && RET == 0) ==> (p->cache == 0 && p->qstatus == QS_LP_MODIFIED))
#define EDIT_I2 \
	__CPROVER_ensures((p != 0 && RET == 0) ==> p->factorok == 0)
/* edits that leave the basis matrix alone keep the factorization flag */
#define EDIT_KEEPF \
	__CPROVER_ensures(p != 0 ==> p->factorok == OLD(p->factorok))
#define EDIT_CALLS \
	__CPROVER_ensures((p != 0) ==> (g_lib_called == 1 && RET == g_lib_rv))

int contract_QSchange_coef(mpq_QSdata *p, int rowindex, int colindex, mpq_t coef)
EDIT_FRAME EDIT_I1 EDIT_I2 EDIT_I3 EDIT_CALLS;
/* a successful sense change may also rewrite row statuses of the stored basis (a row that is no longer ranged cannot stay 'at upper') */
#define EDIT_RSTAT __CPROVER_assigns(p != 0 && p->basis != 0 && p->basis->rstat != 0: __CPROVER_object_whole(p->basis->rstat))
int contract_QSchange_senses(mpq_QSdata *p, int num, int *rowlist, char *sense)
EDIT_FRAME EDIT_RSTAT EDIT_I1 EDIT_I2 EDIT_I3 EDIT_CALLS;
int contract_QSchange_sense(mpq_QSdata *p, int rowindex, int sense)
EDIT_FRAME EDIT_RSTAT EDIT_I1 EDIT_I2 EDIT_I3 EDIT_CALLS;
int contract_QSchange_range(mpq_QSdata *p, int rowindex, mpq_t range)
EDIT_FRAME EDIT_I1 EDIT_I2 EDIT_I3 EDIT_CALLS;
int contract_QSnew_row(mpq_QSdata *p, const mpq_t rhs, int sense, const char *name)
EDIT_FRAME EDIT_I1 EDIT_I2 EDIT_I3 EDIT_CALLS;
int contract_QSchange_objcoef(mpq_QSdata *p, int indx, mpq_t coef)
EDIT_FRAME EDIT_I1 EDIT_KEEPF EDIT_I3 EDIT_CALLS;
int contract_QSchange_rhscoef(mpq_QSdata *p, int indx, mpq_t coef)
EDIT_FRAME EDIT_I1 EDIT_KEEPF EDIT_I3 EDIT_CALLS;
int contract_QSchange_bound(mpq_QSdata *p, int indx, int lu, const mpq_t bound)
EDIT_FRAME EDIT_I1 EDIT_KEEPF EDIT_I3 EDIT_CALLS;
int contract_QSchange_bounds(mpq_QSdata *p, int num, int *collist, char *lu, const mpq_t *bounds)
EDIT_FRAME EDIT_I1 EDIT_KEEPF EDIT_I3 EDIT_CALLS;
/* column additions hand the current factorok to the callee, which keeps lp->nbaz/vstat in step */
int contract_QSnew_col(mpq_QSdata *p, const mpq_t obj, const mpq_t lower, const mpq_t upper, const char *name)
EDIT_FRAME EDIT_I1 EDIT_KEEPF EDIT_I3 EDIT_CALLS
__CPROVER_ensures(p != 0 ==> g_factorok_in == OLD(p->factorok));
int contract_QSadd_col(mpq_QSdata *p, int cnt, int *cmatind, mpq_t *cmatval, mpq_t obj, mpq_t lower, mpq_t upper, const char *name)
EDIT_FRAME EDIT_I1 EDIT_KEEPF EDIT_I3 EDIT_CALLS
__CPROVER_ensures(p != 0 ==> g_factorok_in == OLD(p->factorok));
int contract_QSadd_cols(mpq_QSdata *p, int num, int *cmatcnt, int *cmatbeg, int *cmatind, mpq_t *cmatval, mpq_t *obj, mpq_t *lower, mpq_t *upper, const char **names)
EDIT_FRAME EDIT_I1 EDIT_KEEPF EDIT_I3 EDIT_CALLS
__CPROVER_ensures(p != 0 ==> g_factorok_in == OLD(p->factorok));

/* objective sense: illegal value rejected; a real change drops the cache; same sense is a no-op */
int contract_QSchange_objsense(mpq_QSdata *p, int newsense)
__CPROVER_requires(p == 0 || QS_OK(p))
__CPROVER_assigns(g_lib_called, g_cache_freed, g_bound_ptr, g_bound_sense, g_bound_calls)
__CPROVER_requires(p == 0 || g_old_objsense == p->qslp->objsense)
__CPROVER_assigns(p != 0 && (newsense == QS_MIN || newsense == QS_MAX) && g_old_objsense != newsense: p->cache, p->qstatus, p->qslp->objsense)
__CPROVER_frees(p != 0 && (newsense == QS_MIN || newsense == QS_MAX) && g_old_objsense != newsense: p->cache)
__CPROVER_ensures(p == 0 ==> RET != 0)
__CPROVER_ensures((newsense != QS_MIN && newsense != QS_MAX) ==> RET != 0)
__CPROVER_ensures((p != 0 && (newsense == QS_MIN || newsense == QS_MAX)) ==> (RET == 0 && p->qslp->objsense == newsense))
__CPROVER_ensures((p != 0 && RET == 0 && g_old_objsense != newsense) ==> (p->cache == 0 && p->qstatus == QS_LP_MODIFIED))
__CPROVER_ensures(p != 0 ==> p->factorok == OLD(p->factorok))
;

/* row additions: the callee receives &p->factorok and decides (it refactors with the new rows or
 * clears the flag); the wrapper must not set it back */
int contract_QSadd_rows(mpq_QSdata *p, int num, int *rmatcnt, int *rmatbeg, int *rmatind, const mpq_t *rmatval, const mpq_t *rhs, char *sense, const char **names)
EDIT_FRAME EDIT_I1
__CPROVER_ensures((p != 0 && RET != 0) ==> (p->cache == OLD(p->cache) && p->qstatus == OLD(p->qstatus) && p->basis == OLD(p->basis)))
__CPROVER_ensures(p != 0 ==> p->factorok == g_factorok_out)
;
int contract_QSadd_ranged_rows(mpq_QSdata *p, int num, int *rmatcnt, int *rmatbeg, int *rmatind, const mpq_t *rmatval, const mpq_t *rhs, char *sense, const mpq_t *range, const char **names)
EDIT_FRAME EDIT_I1
__CPROVER_ensures((p != 0 && RET != 0) ==> (p->cache == OLD(p->cache) && p->qstatus == OLD(p->qstatus) && p->basis == OLD(p->basis)))
__CPROVER_ensures(p != 0 ==> p->factorok == g_factorok_out)
;

/* deletions: the basis is dropped unless the callee says it is still a basis; the cached solution
 * may survive only a row deletion for which the callee certified both basis and cache */
#define DEL_FRAME \
	__CPROVER_requires(p == 0 || QS_OK(p)) \
	__CPROVER_assigns(g_lib_rv, g_lib_called, g_cache_freed, g_basis_freed, g_basis_ok, g_cache_ok, g_factorok_out, g_factorok_in, g_sinfo_freed) \
	__CPROVER_assigns(p != 0: p->cache, p->qstatus, p->factorok, p->basis) \
	__CPROVER_frees(p != 0: p->cache, p->basis) \
	__CPROVER_ensures(p == 0 ==> RET != 0)
int contract_QSdelete_rows(mpq_QSdata *p, int num, int *dellist)
DEL_FRAME EDIT_I2 EDIT_I3 EDIT_CALLS
__CPROVER_ensures((p != 0 && RET == 0 && p->cache != 0) ==> (p->cache == OLD(p->cache) && g_basis_ok != 0 && g_cache_ok != 0 && p->basis != 0 && p->basis == OLD(p->basis)))
__CPROVER_ensures((p != 0 && RET == 0 && num > 0 && OLD(p->cache) == 0) ==> p->qstatus == QS_LP_MODIFIED)
__CPROVER_ensures((p != 0 && RET == 0 && g_basis_ok == 0) ==> p->basis == 0)
;
int contract_QSdelete_cols(mpq_QSdata *p, int num, int *dellist)
DEL_FRAME EDIT_I1 EDIT_I2 EDIT_I3 EDIT_CALLS
__CPROVER_ensures((p != 0 && RET == 0 && g_basis_ok == 0) ==> p->basis == 0)
;
int contract_QSdelete_row(mpq_QSdata *p, int rowindex)
DEL_FRAME EDIT_I2 EDIT_I3 EDIT_CALLS
__CPROVER_ensures((p != 0 && RET == 0 && p->cache != 0) ==> (g_basis_ok != 0 && g_cache_ok != 0 && p->basis != 0))
__CPROVER_ensures((p != 0 && RET == 0 && g_basis_ok == 0) ==> p->basis == 0)
;
int contract_QSdelete_col(mpq_QSdata *p, int colindex)
DEL_FRAME EDIT_I1 EDIT_I2 EDIT_I3 EDIT_CALLS
__CPROVER_ensures((p != 0 && RET == 0 && g_basis_ok == 0) ==> p->basis == 0)
;
#endif
