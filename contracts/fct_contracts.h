/* Out-of-tree contracts for the exact verdict functions of qsopt_ex/fct.c (mpq instance) -- C12.
 * In the rational instance every tolerance macro ignores its tolerance (eg_lpnum.mpq.h:202-206), so the verdicts
 * are exact comparisons.  Postconditions are the definitions of primal / dual feasibility of a basis, stated at a
 * ghost position (qsv_g.gk) -- a proof for an arbitrary position is a proof for all positions:
 *   dual:   DUAL_FEASIBLE only if no non-basic column (not artificial, not fixed) has  dz < 0 while sitting at its
 *           lower bound or free (it could be increased), nor dz > 0 while at its upper bound or free
 *   primal: PRIMAL_FEASIBLE only if no basic variable is above a finite upper bound or below a finite lower bound
 */
#ifndef QSV_FCT_CONTRACTS_H
#define QSV_FCT_CONTRACTS_H
#include "wf.h"
#include "fct_mpq.h"
#define PAY(q) ((q)->_mp_num._mp_size)
#define NB_COL(lp, k) ((lp)->nbaz[k])
#define D_SKIP(lp, k) ((lp)->vtype[NB_COL(lp, k)] == VARTIFICIAL || (lp)->vtype[NB_COL(lp, k)] == VFIXED)
#define D_INFEAS_NEG(lp, k) (PAY((lp)->dz[k]) < 0 && !D_SKIP(lp, k) && ((lp)->vstat[NB_COL(lp, k)] == STAT_LOWER || (lp)->vstat[NB_COL(lp, k)] == STAT_ZERO))
#define D_INFEAS_POS(lp, k) (PAY((lp)->dz[k]) > 0 && !D_SKIP(lp, k) && ((lp)->vstat[NB_COL(lp, k)] == STAT_UPPER || (lp)->vstat[NB_COL(lp, k)] == STAT_ZERO))
#define D_INFEAS(lp, k) (D_INFEAS_NEG(lp, k) || D_INFEAS_POS(lp, k))
#define B_COL(lp, k) ((lp)->baz[k])
#define P_ABOVE(lp, k) (PAY((lp)->xbz[k]) > PAY((lp)->uz[B_COL(lp, k)]) && PAY((lp)->uz[B_COL(lp, k)]) != QSV_INF)
#define P_BELOW(lp, k) (PAY((lp)->xbz[k]) < PAY((lp)->lz[B_COL(lp, k)]) && PAY((lp)->lz[B_COL(lp, k)]) != -QSV_INF)

void contract_ILLfct_check_dfeasible(mpq_lpinfo *lp, mpq_feas_info *fs, const mpq_t ftol)
__CPROVER_requires(lp != 0 && fs != 0 && 0 <= lp->nnbasic && lp->nnbasic <= QSV_MAPCAP && 0 <= qsv_g.gk && qsv_g.gk < lp->nnbasic)
__CPROVER_assigns(fs->dstatus, fs->totinfeas, lp->dinfeas, __CPROVER_object_whole(lp->dfeas))
__CPROVER_ensures(fs->dstatus == DUAL_FEASIBLE || fs->dstatus == DUAL_INFEASIBLE)
__CPROVER_ensures(fs->dstatus == DUAL_FEASIBLE ==> !D_INFEAS(lp, qsv_g.gk))
__CPROVER_ensures(lp->dfeas[qsv_g.gk] == (D_INFEAS_NEG(lp, qsv_g.gk) ? -1 : D_INFEAS_POS(lp, qsv_g.gk) ? 1 : 0))
__CPROVER_ensures((fs->dstatus == DUAL_FEASIBLE) == (PAY(lp->dinfeas) == 0))
;

void contract_ILLfct_check_pfeasible(mpq_lpinfo *lp, mpq_feas_info *fs, const mpq_t ftol)
__CPROVER_requires(lp != 0 && fs != 0 && 0 <= lp->nrows && lp->nrows <= QSV_MAPCAP && 0 <= qsv_g.gk && qsv_g.gk < lp->nrows && PAY(ftol) == 0)
__CPROVER_requires(lp->uz[lp->baz[qsv_g.gk]]->_mp_den._mp_size == 1 && lp->lz[lp->baz[qsv_g.gk]]->_mp_den._mp_size == 1)
__CPROVER_assigns(fs->pstatus, fs->totinfeas, lp->pinfeas, __CPROVER_object_whole(lp->bfeas))
__CPROVER_ensures(fs->pstatus == PRIMAL_FEASIBLE || fs->pstatus == PRIMAL_INFEASIBLE)
__CPROVER_ensures(fs->pstatus == PRIMAL_FEASIBLE ==> (!P_ABOVE(lp, qsv_g.gk) && !P_BELOW(lp, qsv_g.gk)))
__CPROVER_ensures(lp->bfeas[qsv_g.gk] == (P_ABOVE(lp, qsv_g.gk) ? 1 : P_BELOW(lp, qsv_g.gk) ? -1 : 0))
;
#endif
